/-
  Optyx.Props.StateTie — the editing operations of the C13 state machine (`Py.State.step` on `minimize`, `maximize`,
  `subject_to`, and `Py.State.init`, `invalidate`, `getIsLinear`) are the *interpretation of the effect scripts translated
  from the bodies of the `Problem` methods* on every run (`Generated/ProblemEdit.lean`, harness/py2lean_state.py).

  An editing method that no longer clears one of the four caches, clears before it writes, appends constraints before
  the whole list has been validated (the pre-repair F22 form), or records the wrong sense yields a different script, and
  the equalities below are re-checked against it.
-/
import Optyx.Py.State
import Optyx.Generated.ProblemEdit

namespace Optyx.Props.StateTie
open Optyx Optyx.Py.State Optyx.Generated

variable {E : Type}

/-- the argument of an editing call; `list cs bad` = the list `cs` followed, if `bad`, by an entry that is not a
    `Constraint` (so that `_validate_constraint` raises on it) -/
inductive Arg (E : Type)
  | none
  | expr (e : E)
  | con (c : Con E)
  | list (cs : List (Con E)) (bad : Bool)

/-- interpreter state: the problem, the local `validated`, and whether an exception has been raised
    (`stuck`: the script contains a statement the model cannot express) -/
structure Run (E : Type) where
  s : PState E
  validated : List (Con E)
  raised : Bool
  stuck : Bool

def senseOf : String → Option Sense
  | "minimize" => some .minimize
  | "maximize" => some .maximize
  | _ => none

/-- `self.<f> = None` -/
def clearField (s : PState E) : FieldG → Option (PState E)
  | .variables => some { s with variables := none }
  | .solverCache => some { s with solverCache := none }
  | .lpCache => some { s with lpCache := none }
  | .isLinearCache => some { s with isLinear := none }
  | .objective => some { s with model := { s.model with obj := none } }
  | .name => some s
  | .sense => none
  | .constraints => none

/-- `_invalidate_caches()`: its own script, which consists of `clear`s -/
def runInvalidate (s : PState E) : List EffG → Option (PState E)
  | [] => some s
  | .clear f :: es => (clearField s f).bind fun s' => runInvalidate s' es
  | _ :: _ => none

def addCons (s : PState E) (cs : List (Con E)) : PState E :=
  { s with model := { s.model with cons := s.model.cons ++ cs } }

def applyEff (a : Arg E) (r : Run E) : EffG → Run E
  | .clear f => match clearField r.s f with
    | some s' => { r with s := s' }
    | none => { r with stuck := true }
  | .setName => r
  | .setObjective => match a with
    | .expr e => { r with s := { r.s with model := { r.s.model with obj := some e } } }
    | _ => { r with stuck := true }
  | .setSense t => match senseOf t with
    | some x => { r with s := { r.s with model := { r.s.model with sense := x } } }
    | none => { r with stuck := true }
  | .emptyConstraints => { r with s := { r.s with model := { r.s.model with cons := [] } } }
  | .invalidate => match runInvalidate r.s invalidateCachesG with
    | some s' => { r with s := s' }
    | none => { r with stuck := true }
  | .validateAll => match a with
    | .list cs bad => if bad then { r with raised := true } else { r with validated := cs }
    | _ => { r with stuck := true }
  | .extendValidated => { r with s := addCons r.s r.validated }
  | .appendValidated => match a with
    | .con c => { r with s := addCons r.s [c] }
    | _ => { r with stuck := true }
  | .appendEachValidated => match a with
    | .list cs bad => { r with s := addCons r.s cs, raised := bad }
    | _ => { r with stuck := true }

/-- statements after a raised exception are not executed -/
def runEffs (a : Arg E) : Run E → List EffG → Run E
  | r, [] => r
  | r, e :: es => if r.raised || r.stuck then r else runEffs a (applyEff a r e) es

def exec (effs : List EffG) (a : Arg E) (s : PState E) : Run E := runEffs a ⟨s, [], false, false⟩ effs

/-! ### the ties -/

/-- `_invalidate_caches` -/
theorem invalidate_eq (s : PState E) : runInvalidate s invalidateCachesG = some (invalidate s) := rfl

/-- `Problem.minimize(e)` -/
theorem minimize_eq (ctx : Ctx E) (s : PState E) (e : E) :
    step ctx s (.minimize e) = ((exec minimizeG (.expr e) s).s, .unit)
    ∧ (exec minimizeG (.expr e) s).raised = false ∧ (exec minimizeG (.expr e) s).stuck = false :=
  ⟨rfl, rfl, rfl⟩

/-- `Problem.maximize(e)` -/
theorem maximize_eq (ctx : Ctx E) (s : PState E) (e : E) :
    step ctx s (.maximize e) = ((exec maximizeG (.expr e) s).s, .unit)
    ∧ (exec maximizeG (.expr e) s).raised = false ∧ (exec maximizeG (.expr e) s).stuck = false :=
  ⟨rfl, rfl, rfl⟩

/-- `Problem.subject_to(c)` for a single constraint -/
theorem subjectTo_eq (ctx : Ctx E) (s : PState E) (c : Con E) :
    step ctx s (.subjectTo c) = ((exec subjectToOneG (.con c) s).s, .unit)
    ∧ (exec subjectToOneG (.con c) s).raised = false ∧ (exec subjectToOneG (.con c) s).stuck = false :=
  ⟨rfl, rfl, rfl⟩

/-- `Problem.subject_to(cs)` for a list of constraints -/
theorem subjectToList_eq (ctx : Ctx E) (s : PState E) (cs : List (Con E)) :
    step ctx s (.subjectToList cs) = ((exec subjectToListG (.list cs false) s).s, .unit)
    ∧ (exec subjectToListG (.list cs false) s).raised = false
    ∧ (exec subjectToListG (.list cs false) s).stuck = false :=
  ⟨rfl, rfl, rfl⟩

/-- `Problem.subject_to(cs ++ [invalid])`: raises and leaves the problem exactly as it was -/
theorem subjectToBad_eq (ctx : Ctx E) (s : PState E) (cs : List (Con E)) :
    step ctx s (.subjectToBad cs) = ((exec subjectToListG (.list cs true) s).s, .raised .constraintError)
    ∧ (exec subjectToListG (.list cs true) s).raised = true
    ∧ (exec subjectToListG (.list cs true) s).stuck = false :=
  ⟨rfl, rfl, rfl⟩

/-- `Problem()`: whatever the memory held before, `__init__` leaves the initial state -/
theorem init_eq (s0 : PState E) :
    (exec problemInitG .none s0).s = init s0.bnd
    ∧ (exec problemInitG .none s0).raised = false ∧ (exec problemInitG .none s0).stuck = false :=
  ⟨rfl, rfl, rfl⟩

theorem all_eq_not_any_not (l : List Bool) : l.all id = !(l.any fun b => !b) := by
  induction l with
  | nil => rfl
  | cons a t ih => cases a <;> simp_all

/-- `Problem._is_linear_problem`: result and memo slot.  The model keeps, as a ghost, the *model the slot was computed
    from*; its value is `src.isLinear`. -/
theorem getIsLinear_eq (ctx : Ctx E) (s : PState E) :
    ((getIsLinear ctx s).1.isLinear.map (·.isLinear ctx), (getIsLinear ctx s).2)
      = isLinearProblemG (s.isLinear.map (·.isLinear ctx)) (s.model.obj.map (linE ctx))
          (s.model.cons.map fun c => linE ctx c.expr) := by
  unfold getIsLinear isLinearProblemG
  cases hc : s.isLinear with
  | some src => simp [hc]
  | none =>
    simp only [Option.map_none, Option.map_some]
    unfold Model.isLinear
    cases ho : s.model.obj with
    | none => simp
    | some o =>
      simp only [Option.map_some]
      cases hl : linE ctx o with
      | false => simp
      | true =>
        have h := all_eq_not_any_not (s.model.cons.map fun c => linE ctx c.expr)
        simp only [List.all_map, List.any_map] at h
        have h2 : (s.model.cons.all fun c => linE ctx c.expr)
            = !(s.model.cons.any fun c => !linE ctx c.expr) := by
          simpa [Function.comp_def] using h
        cases hany : (s.model.cons.any fun c => !linE ctx c.expr) <;> simp [h2, hany, List.any_map, Function.comp_def]

/-- the two read-only helpers go through `Problem.variables` -/
theorem readers_text :
    nVariablesTextG = "return len(self.variables)"
    ∧ getBoundsTextG = "return [(v.lb, v.ub) for v in self.variables]" := by decide

/-- the read-only accessors return the fields the editing scripts write (and `constraints` a COPY of the list); the two small
    predicates read `_constraints` / `variables` only -/
theorem accessors_text :
    problemReadersG.lookup "objective" = some "return self._objective" ∧
    problemReadersG.lookup "sense" = some "return self._sense" ∧
    problemReadersG.lookup "constraints" = some "return self._constraints.copy()" ∧
    problemReadersG.lookup "n_constraints" = some "return len(self._constraints)" ∧
    problemReadersG.lookup "_has_equality_constraints" = some "return any((c.sense == '==' for c in self._constraints))" ∧
    problemReadersG.lookup "_only_simple_bounds"
      = some "if not self._constraints: return True; return all((is_simple_bound(c, self.variables) for c in self._constraints))" := by
  refine ⟨rfl, rfl, rfl, rfl, rfl, rfl⟩

/-- all ties of this file, for the audit -/
theorem edits_are_source (ctx : Ctx E) (s : PState E) :
    (∀ e, step ctx s (.minimize e) = ((exec minimizeG (.expr e) s).s, .unit))
    ∧ (∀ e, step ctx s (.maximize e) = ((exec maximizeG (.expr e) s).s, .unit))
    ∧ (∀ c, step ctx s (.subjectTo c) = ((exec subjectToOneG (.con c) s).s, .unit))
    ∧ (∀ cs, step ctx s (.subjectToList cs) = ((exec subjectToListG (.list cs false) s).s, .unit))
    ∧ (∀ cs, step ctx s (.subjectToBad cs) = ((exec subjectToListG (.list cs true) s).s, .raised .constraintError))
    ∧ (exec problemInitG .none s).s = init s.bnd :=
  ⟨fun e => (minimize_eq ctx s e).1, fun e => (maximize_eq ctx s e).1, fun c => (subjectTo_eq ctx s c).1,
   fun cs => (subjectToList_eq ctx s cs).1, fun cs => (subjectToBad_eq ctx s cs).1, (init_eq s).1⟩

/-! ### C13 stated directly about the translated scripts -/

def cachesEmpty (s : PState E) : Prop :=
  s.variables = none ∧ s.solverCache = none ∧ s.lpCache = none ∧ s.isLinear = none

/-- **every editing method of the source leaves all four caches empty**, whatever they held, and raises nothing
    (for well-typed arguments) -/
theorem edit_clears_caches_of_source_equations (s : PState E) :
    (∀ e, cachesEmpty (exec minimizeG (.expr e) s).s ∧ (exec minimizeG (.expr e) s).raised = false)
    ∧ (∀ e, cachesEmpty (exec maximizeG (.expr e) s).s ∧ (exec maximizeG (.expr e) s).raised = false)
    ∧ (∀ c, cachesEmpty (exec subjectToOneG (.con c) s).s ∧ (exec subjectToOneG (.con c) s).raised = false)
    ∧ (∀ cs, cachesEmpty (exec subjectToListG (.list cs false) s).s
              ∧ (exec subjectToListG (.list cs false) s).raised = false) :=
  ⟨fun _ => ⟨⟨rfl, rfl, rfl, rfl⟩, rfl⟩, fun _ => ⟨⟨rfl, rfl, rfl, rfl⟩, rfl⟩,
   fun _ => ⟨⟨rfl, rfl, rfl, rfl⟩, rfl⟩, fun _ => ⟨⟨rfl, rfl, rfl, rfl⟩, rfl⟩⟩

/-- … and records exactly the edit: objective and sense, or the appended constraints, nothing else of the model -/
theorem edit_model_of_source_equations (s : PState E) :
    (∀ e, (exec minimizeG (.expr e) s).s.model = { s.model with obj := some e, sense := .minimize })
    ∧ (∀ e, (exec maximizeG (.expr e) s).s.model = { s.model with obj := some e, sense := .maximize })
    ∧ (∀ c, (exec subjectToOneG (.con c) s).s.model = { s.model with cons := s.model.cons ++ [c] })
    ∧ (∀ cs, (exec subjectToListG (.list cs false) s).s.model = { s.model with cons := s.model.cons ++ cs }) :=
  ⟨fun _ => rfl, fun _ => rfl, fun _ => rfl, fun _ => rfl⟩

/-- a rejected list changes nothing at all: model and caches are as before (the repaired F22) -/
theorem rejected_list_changes_nothing_of_source_equations (s : PState E) (cs : List (Con E)) :
    (exec subjectToListG (.list cs true) s).s = s ∧ (exec subjectToListG (.list cs true) s).raised = true :=
  ⟨rfl, rfl⟩

/-- the pre-repair form of `subject_to` (`for c in constraint: append(validate(c))`) is a script for which that fails:
    the valid prefix stays appended behind still-populated caches -/
example (c : Con Nat) :
    (runEffs (.list [c] true) ⟨init (fun _ => (none, none)), [], false, false⟩
      [.appendEachValidated, .invalidate]).s.model.cons = [c] := rfl

end Optyx.Props.StateTie
