/-
  C12 — parameter updates are honoured by every later evaluation, compiled callable, derivative.

  `Py.State.pstep` is the executable model: a parameter store `σ`, a model expression `e` with
  `param oid` leaves, and the artefacts `compile_expression` / `compile_jacobian` /
  `compile_hessian` built at first use and kept.  `substParams σ e` is "the freshly built model in
  which each Parameter is `Constant(σ p)`".

  `RegularExponents` is the only hypothesis: where a Parameter is the *exponent* of a power, the
  base is non-zero at the observation point.  (The parametric model differentiates `x ** p` by the
  general rule `x**p * (p/x)`, the constant model `x ** q` by `q * x**(q-1)`; at `x = 0` the real
  code evaluates the first to `0 * inf = nan`, sanitised to `0`: for `p = 1` the Jacobian entry is
  `0` instead of `1`.)

  Full statement of the refinement (`param_refinement` below proves it, the Hessian observation at
  regular points of a well-formed model; history of this file:
      theorem param_refinement (ops) (op : POp ℝ) (hreg : …regular at the observation point…) :
        let s := (prun e vs (pinit σ₀) ops).1
        (pstep e vs s op).2 = (pstep (substParams s.σ e) vs (pinit σ') op).2
  `param_refinement_partial` below proves it for `set`, `evaluate`, the compiled function and the
  compiled Jacobian.  Missing for `callHess`: the second derivative needs
  `⟦grad vj (substParams σ (grad vi e))⟧ = ⟦grad vj (grad vi (substParams σ e))⟧`, i.e. that two
  expressions with the same meaning *everywhere* have gradients with the same meaning — which
  follows from the derivative-correctness theorem of C02 (`grad` is the true partial derivative),
  not from the syntactic induction used here.  The Hessian observation is covered by the
  fresh-constant-model oracle of c12.py on the real code.)
  `param_refinement` closes that gap exactly this way (`Lemmas/ParamHess.lean`): the two models
  mean the same function, so by the C02 theorem at every nearby regular point their symbolic first
  and second derivatives mean the same.
-/
import Optyx.Lemmas.StateParam
import Optyx.Lemmas.StateDegree
import Optyx.Lemmas.ParamHess

namespace Optyx.Props.C12
open Optyx Optyx.Py Optyx.Py.State NumAlg

/-- where a Parameter is the exponent of a power, the base does not vanish at `ρ` -/
def RegularExponents (ρ : String → ℝ) (σ : Nat → Rat) (e : Expr) : Prop :=
  ExpReg ρ (storeOf σ) (fun p => .const (.rat (σ p.oid))) e

/-- evaluating the constant model (under any store) = evaluating the parametric model under the
    current store; for every number algebra, in particular IEEE doubles -/
theorem denote_substParams {α : Type} [NumAlg α] (ρ : String → α) (σ : Nat → Rat) (σ' : Nat → α) (e : Expr) :
    denote ρ σ' (substParams σ e) = denote ρ (storeOf σ) e :=
  denote_substParams' ρ σ σ' e

/-- the symbolic gradient commutes with the substitution *semantically* (the simplifiers may fold
    differently once a parameter is a literal 0 or 1, so the trees differ) -/
theorem grad_substParams (ρ : String → ℝ) (σ : Nat → Rat) (σ' : Nat → ℝ) (w : Var) (e : Expr)
    (hreg : RegularExponents ρ σ e) :
    denote ρ σ' (grad w (substParams σ e)) = denote ρ (storeOf σ) (grad w e) := by
  have H : LeafMap ρ (storeOf σ) σ' (fun p => .const (.rat (σ p.oid))) :=
    ⟨by intro p; simp [denote, storeOf], fun p => Or.inr ⟨_, rfl⟩⟩
  exact (grad_mapPar H rfl e hreg).symm

/-- a Parameter is not a Constant: it never enters the pre-computed constant Jacobian, whose
    entries are literal constants only — so nothing computed from `σ p` is ever stored there -/
theorem param_not_constant :
    (∀ p, asConst (.param p) = none) ∧
    (∀ row cs, allConst row = some cs → ∀ e ∈ row, ∃ c, e = Expr.const c) :=
  ⟨fun _ => rfl, allConst_mem⟩

/-- a Parameter has no polynomial degree: every expression containing one is classified `None` by
    the degree analysis (model `Py.degree` of `_compute_degree_impl`), is therefore never linear, so
    `solve("auto")` never takes the LP path and `solve("linprog")` raises — no parameter value is
    ever frozen into extracted LP data -/
theorem param_has_no_degree (e : Expr) (h : hasParam e = true) :
    Py.degree e = none ∧ Py.isLinear e = false := by
  have hd := degree_none_of_hasParam e h
  exact ⟨hd, by simp [Py.isLinear, hd]⟩

/-- calling the Jacobian artefact of the parametric model under the current store = calling the
    freshly built artefact of the constant model — even when the two took different compile paths
    (e.g. `jacobian_fn` vs `constant_jacobian_fn`) -/
theorem jac_call_substParams (ρ : String → ℝ) (σ σ' : Nat → Rat) (e : Expr) (vs : List Var)
    (hreg : RegularExponents ρ σ e) :
    (buildJac e vs).call σ ρ vs = (buildJac (substParams σ e) vs).call σ' ρ vs := by
  rw [buildJac_call, buildJac_call]
  apply List.map_congr_left
  intro v _
  exact (grad_substParams ρ σ (storeOf σ') v e hreg).symm

/-- in every history the stored artefacts are the ones built from `(e, vs)` — no `set`, before or
    after, changes them, and building them never consults the store -/
theorem artefacts_independent_of_store {α : Type} [NumAlg α] (e : Expr) (vs : List Var) (σ₀ : Nat → Rat)
    (ops : List (POp α)) :
    ArtInv e vs (prun e vs (pinit σ₀) ops).1 :=
  artInv_prun e vs ops _ (artInv_pinit e vs σ₀)

/-- after any history of `set` / `evaluate` / compiled calls / Jacobian calls / Hessian calls, the
    next `set`, `evaluate`, compiled-function or compiled-Jacobian observation equals the observation
    on a freshly built model in which every Parameter is a Constant holding its *current* value -/
theorem param_refinement_partial (e : Expr) (vs : List Var) (σ₀ σ' : Nat → Rat)
    (ops : List (POp ℝ)) (op : POp ℝ)
    (hop : ∀ ρ, op ≠ .callHess ρ)
    (hreg : ∀ ρ, op = .callJac ρ → RegularExponents ρ (prun e vs (pinit σ₀) ops).1.σ e) :
    (pstep e vs (prun e vs (pinit σ₀) ops).1 op).2 =
      (pstep (substParams (prun e vs (pinit σ₀) ops).1.σ e) vs (pinit σ') op).2 := by
  have hinv := artefacts_independent_of_store e vs σ₀ ops
  generalize (prun e vs (pinit σ₀) ops).1 = s at hinv hreg ⊢
  obtain ⟨h1, h2, h3⟩ := pstep_obs (α := ℝ) e vs s hinv
  obtain ⟨g1, g2, g3⟩ := pstep_obs (α := ℝ) (substParams s.σ e) vs (pinit σ') (artInv_pinit _ _ _)
  cases op with
  | set o v => rfl
  | evaluate ρ => rw [h1, g1, denote_substParams]
  | callFn ρ => rw [h2, g2, denote_substParams]
  | callJac ρ => rw [h3, g3]; exact jac_call_substParams ρ s.σ σ' e vs (hreg ρ rfl)
  | callHess ρ => exact absurd rfl (hop ρ)

/-- the Hessian artefact of the parametric model called under the current store = the freshly built
    Hessian artefact of the constant model, at every regular point of a well-formed model (the two
    symbolic Hessians are different trees; they mean the same because both are the second derivative of
    the same function — C02 twice) -/
theorem hess_call_substParams (ρ : String → ℝ) (σ σ' : Nat → Rat) (e : Expr) (vs : List Var)
    (hwf : WF e) (hreg : Regular ρ (storeOf σ) e) :
    ((buildHess e vs).map fun row => row.map fun d => denote ρ (storeOf σ) d) =
      ((buildHess (substParams σ e) vs).map fun row => row.map fun d => denote ρ (storeOf σ') d) := by
  simp only [buildHess, List.map_map]
  apply List.map_congr_left
  intro i _
  simp only [Function.comp_def, List.map_map]
  apply List.map_congr_left
  intro j _
  exact (hessEntry_substParams σ (storeOf σ') ρ _ _ e hwf hreg).symm

/-- **C12, full refinement**: after any history of `set` / `evaluate` / compiled calls / Jacobian
    calls / Hessian calls, *every* next observation — including the compiled Hessian — equals the
    observation on a freshly built model in which every Parameter is a Constant holding its current
    value.  Hypotheses: for a Jacobian call the point is regular for parametric exponents; for a Hessian
    call the model is well-formed and the point regular (where derivatives exist at all). -/
theorem param_refinement (e : Expr) (vs : List Var) (σ₀ σ' : Nat → Rat)
    (ops : List (POp ℝ)) (op : POp ℝ)
    (hregJ : ∀ ρ, op = .callJac ρ → RegularExponents ρ (prun e vs (pinit σ₀) ops).1.σ e)
    (hregH : ∀ ρ, op = .callHess ρ → WF e ∧ Regular ρ (storeOf (prun e vs (pinit σ₀) ops).1.σ) e) :
    (pstep e vs (prun e vs (pinit σ₀) ops).1 op).2 =
      (pstep (substParams (prun e vs (pinit σ₀) ops).1.σ e) vs (pinit σ') op).2 := by
  cases op with
  | callHess ρ =>
    have hinv := artefacts_independent_of_store e vs σ₀ ops
    generalize (prun e vs (pinit σ₀) ops).1 = s at hinv hregH ⊢
    obtain ⟨hwf, hreg⟩ := hregH ρ rfl
    have h1 : (pstep e vs s (.callHess ρ)).2 =
        ((buildHess e vs).map fun row => row.map fun d => denote ρ (storeOf s.σ) d).flatten := by
      rcases hinv.2.2 with hh | hh <;> simp [pstep, hh]
    have h2 : (pstep (substParams s.σ e) vs (pinit σ') (.callHess ρ)).2 =
        ((buildHess (substParams s.σ e) vs).map fun row => row.map fun d => denote ρ (storeOf σ') d).flatten := by
      simp [pstep, pinit]
    rw [h1, h2, hess_call_substParams ρ s.σ σ' e vs hwf hreg]
  | set o v => exact param_refinement_partial e vs σ₀ σ' ops _ (fun ρ h => by cases h) (fun ρ h => by cases h)
  | evaluate ρ' => exact param_refinement_partial e vs σ₀ σ' ops _ (fun ρ h => by cases h) (fun ρ h => by cases h)
  | callFn ρ' => exact param_refinement_partial e vs σ₀ σ' ops _ (fun ρ h => by cases h) (fun ρ h => by cases h)
  | callJac ρ' => exact param_refinement_partial e vs σ₀ σ' ops _ (fun ρ h => by cases h) hregJ

/-! ### non-vacuity -/

/-- `RegularExponents` is satisfiable on a model with a parametric exponent … -/
example : RegularExponents (fun _ => 2) (fun _ => 3) (.bin .pow (.var ⟨"x", 1⟩) (.param ⟨"p", 7⟩)) := by
  simp [RegularExponents, ExpReg, powOk, denote]

/-- … and genuinely excludes base 0 -/
example : ¬ RegularExponents (fun _ => 0) (fun _ => 1) (.bin .pow (.var ⟨"x", 1⟩) (.param ⟨"p", 7⟩)) := by
  simp [RegularExponents, ExpReg, powOk, denote]

/-- the excluded point is a real difference between the two models: d/dx (x ** p) at x = 0, p = 1
    means `0 ^ 1 * (1 / 0) = 0` over ℝ (and `nan → 0` in the code), d/dx (x ** Constant 1) means `1` -/
example :
    denote (fun _ => (0 : ℝ)) (storeOf fun _ => 1) (grad ⟨"x", 1⟩ (.bin .pow (.var ⟨"x", 1⟩) (.param ⟨"p", 7⟩))) = 0 ∧
    denote (fun _ => (0 : ℝ)) (fun _ => 0)
      (grad ⟨"x", 1⟩ (substParams (fun _ => 1) (.bin .pow (.var ⟨"x", 1⟩) (.param ⟨"p", 7⟩)))) = 1 := by
  constructor <;> simp [grad, substParams, mapPar, Optyx.Generated.binaryRule, denote, storeOf]

/-- a history in which the Jacobian artefact is built *before* a `set` and called after it -/
example (ρ : String → ℝ) (hx : ρ "x" ≠ 0) :
    let e : Expr := .bin .mul (.param ⟨"p", 7⟩) (.bin .pow (.var ⟨"x", 1⟩) (.param ⟨"q", 8⟩))
    let vs : List Var := [⟨"x", 1⟩]
    let ops : List (POp ℝ) := [.callJac ρ, .set 7 5, .set 8 2]
    (pstep e vs (prun e vs (pinit fun _ => 1) ops).1 (.callJac ρ)).2 =
      (pstep (substParams (prun e vs (pinit fun _ => 1) ops).1.σ e) vs (pinit fun _ => 0) (.callJac ρ)).2 := by
  intro e vs ops
  apply param_refinement_partial
  · intro ρ' h; cases h
  · intro ρ' h
    injection h with h
    subst h
    simp [RegularExponents, ExpReg, powOk, denote, hx, e]

end Optyx.Props.C12
