/-
  C11 — vector and matrix modelling operations denote their NumPy counterparts.

  Model: `Optyx.Py.Api` (`Py/VecApi.lean`).  For each API operation the theorem says what the built
  object denotes (`dvals`, `gvals`, `denote`) in terms of a specification written on plain lists of
  values — the NumPy meaning: element-wise `zipWith` with scalar broadcasting, `sum`, `dotp`, `matVec`
  (`A @ x`), `quadForm`, CPython slicing (`pyGetSlice`), transposition.  Statements are generic in the
  number algebra unless an accumulation has to be re-associated (`@` of a MatrixVariable, `trace`: ℝ).
  Only property theorems live here; helper lemmas are in `Optyx/Lemmas/ApiVec*.lean`, `ApiViews.lean`.
-/
import Optyx.Lemmas.ApiVecReal
import Optyx.Lemmas.ApiViews
import Optyx.Drive.Api

namespace Optyx.Props.C11
open Optyx Optyx.Py.Api NumAlg

section Generic
variable {α : Type} [NumAlg α] (ρ : String → α) (σ : Nat → α)

omit [NumAlg α] in
/-- `x[k]` (negative `k` counts from the end) is the element NumPy's `values[k]` reads;
    out-of-range keys raise `IndexError` -/
theorem getitem_denote (v : VVar) (k : Int) :
    (∀ x, vIndex v k = .ok x → ∃ i : Nat, i < v.vars.length ∧
      ((0 ≤ k ∧ (i : Int) = k) ∨ (k < 0 ∧ (i : Int) = v.vars.length + k)) ∧
      (valsOf ρ v.vars)[i]? = some (ρ x.name)) ∧
    (∀ e, vIndex v k = .error e →
      e = .index ∧ ((v.vars.length : Int) ≤ k ∨ (v.vars.length : Int) + k < 0)) := by
  constructor
  · intro x h
    obtain ⟨i, hn, hx⟩ := vIndex_ok h
    obtain ⟨hi, hk⟩ := normIndex_ok hn
    exact ⟨i, hi, hk, by simp [valsOf, List.getElem?_map, hx]⟩
  · intro e h; exact vIndex_error h

example : vIndex ⟨"x", 9, [⟨"x[0]", 1⟩, ⟨"x[1]", 2⟩, ⟨"x[2]", 3⟩]⟩ (-1) = .ok ⟨"x[2]", 3⟩ := rfl

omit [NumAlg α] in
/-- `x[a:b:c]` is a view: its values are CPython's slice of the values, its elements are elements of
    `x` (the same objects), it is never empty, and it is a new object -/
theorem slice_denote (v w : VVar) (sl : PySlice) (oid : Nat) (h : vSlice v sl oid = .ok w) :
    pyGetSlice (valsOf ρ v.vars) sl = .ok (valsOf ρ w.vars) ∧
    (∀ x ∈ w.vars, x ∈ v.vars) ∧ w.vars ≠ [] ∧ w.oid = oid := by
  obtain ⟨hs, hne, ho⟩ := vSlice_ok h
  refine ⟨?_, pyGetSlice_mem hs, hne, ho⟩
  have := pyGetSlice_map (fun x : Var => ρ x.name) v.vars sl
  rw [hs] at this
  exact this

example : ∃ w, vSlice ⟨"x", 9, [⟨"x[0]", 1⟩, ⟨"x[1]", 2⟩, ⟨"x[2]", 3⟩]⟩ ⟨none, none, some (-1)⟩ 10 = .ok w ∧
    w.vars = [⟨"x[2]", 3⟩, ⟨"x[1]", 2⟩, ⟨"x[0]", 1⟩] := ⟨_, rfl, rfl⟩

/-- the slice model: every position read exists (so `len(x[s])` is the length CPython computes), no
    position is read twice, `seq[:]` reads everything in order, `step == 0` raises `ValueError` -/
theorem sliceIdx_spec (n : Nat) (sl : PySlice) :
    (∀ idx, sliceIdx n sl = .ok idx → (∀ i ∈ idx, i < n) ∧ idx.Nodup) ∧
    sliceIdx n ⟨none, none, none⟩ = .ok (List.range n) ∧
    (sl.step = some 0 → sliceIdx n sl = .error .valueError) := by
  refine ⟨fun idx h => ⟨sliceIdx_lt h, sliceIdx_nodup h⟩, sliceIdx_full n, ?_⟩
  intro h0; simp [sliceIdx, h0]

/-- `left op right` element-wise (`_vector_binary_op`): NumPy's `zipWith` with a scalar right operand
    broadcast and a vector / 1-d array / list right operand of the same length -/
theorem vectorBinaryOp_denote (left : VecLike) (right : Operand) (op : BinOp) (es : List Expr)
    (h : vectorBinaryOp left right op = .ok es) :
    ∃ rv, vecOperandVals ρ σ left.elems.length right = some rv ∧ rv.length = left.elems.length ∧
      dvals ρ σ es = List.zipWith (binop op) (left.vals ρ σ) rv :=
  vectorBinaryOp_vals ρ σ left right op es h

/-- `other - x`, `other / x` (`_vector_reflected_op`): the other operand is on the *left* -/
theorem vectorReflectedOp_denote (vector : VecLike) (other : Operand) (op : BinOp) (es : List Expr)
    (h : vectorReflectedOp vector other op = .ok es) :
    ∃ lv, reflOperandVals ρ σ vector.elems.length other = some lv ∧ lv.length = vector.elems.length ∧
      dvals ρ σ es = List.zipWith (binop op) lv (vector.vals ρ σ) :=
  vectorReflectedOp_vals ρ σ vector other op es h

example : ∃ es, vectorReflectedOp (.vvar ⟨"x", 9, [⟨"x[0]", 1⟩, ⟨"x[1]", 2⟩]⟩) (.arr1 [10, 20]) .sub = .ok es ∧
    es = [.bin .sub (cst 10) (.var ⟨"x[0]", 1⟩), .bin .sub (cst 20) (.var ⟨"x[1]", 2⟩)] := ⟨_, rfl, rfl⟩

theorem vectorNeg_denote (v : VecLike) (es : List Expr) (h : vectorNeg v = .ok es) :
    dvals ρ σ es = (v.vals ρ σ).map (unop .neg) := vectorNeg_vals ρ σ v es h

/-- `x ** k` on a VectorVariable: an ElementwisePower whose elements denote `x_i ** k` -/
theorem vvarPow_denote (v : VVar) (k : Operand) (w : VVar) (q : Rat) (h : vvarPow v k = .ok (w, q)) :
    w = v ∧ floatOf k = .ok q ∧ dvals ρ σ (epowElems w q) = powVals (valsOf ρ v.vars) q := by
  unfold vvarPow at h
  cases hf : floatOf k with
  | error e => rw [hf] at h; cases h
  | ok q' =>
    rw [hf] at h
    simp only [Except.map] at h
    cases h
    exact ⟨rfl, rfl, dvals_epowElems ρ σ v q⟩

/-- `.sum()` of the four vector classes -/
theorem sum_denote (v : VVar) (es : List Expr) (k : Rat) (op : VOp) :
    denote ρ σ (vectorSum (.vvar v)) = NumAlg.sum (valsOf ρ v.vars) ∧
    denote ρ σ (vectorSum (.vexpr es)) = NumAlg.sum (dvals ρ σ es) ∧
    denote ρ σ (vectorSum (.epow v k)) = NumAlg.sum (powVals (valsOf ρ v.vars) k) ∧
    denote ρ σ (vectorSum (.eun v op)) = NumAlg.sum ((valsOf ρ v.vars).map (unop op.toUn)) :=
  ⟨vectorSum_vvar ρ σ v, vectorSum_vexpr ρ σ es, vectorSum_epow ρ σ v k, vectorSum_eun ρ σ v op⟩

/-- `DotProduct(left, right)`: equal lengths, value `np.dot` -/
theorem dot_denote (left : Vec) (right : Operand) (e : Expr) (h : mkDot left right = .ok e) :
    ∃ r, right.toVec? = some r ∧ (denoteVec ρ σ r).length = (denoteVec ρ σ left).length ∧
      denote ρ σ e = dotp (denoteVec ρ σ left) (denoteVec ρ σ r) := mkDot_vals ρ σ left right e h

/-- the `x.dot(A @ u)` → `QuadraticForm(x, A)` rewrite keeps the value, *because* it is taken only
    when `u` holds the very same element objects as `x` (identity, not names: finding F10).
    `H1`, `H2`: an object id denotes one object. -/
theorem dot_rewrite_sound (self u : VVar) (q : List (List Rat)) (e e' : Expr)
    (h : vvarDot self (.mvp q (.vars u)) = .ok e)
    (h' : mkDot (.vars self) (.mvp q (.vars u)) = .ok e')
    (H1 : u.oid = self.oid → u.vars = self.vars)
    (H2 : ∀ a ∈ u.vars, ∀ b ∈ self.vars, a.oid = b.oid → a.name = b.name) :
    denote ρ σ e = denote ρ σ e' := by
  unfold vvarDot at h
  simp only [] at h
  split at h
  · rename_i hs
    obtain ⟨he, _, _⟩ := mkQuadArr_ok h
    obtain ⟨r, hr, _, hd⟩ := mkDot_vals ρ σ _ _ _ h'
    simp only [Operand.toVec?, Option.some.injEq] at hr
    subst hr
    rw [he, hd, quad_denote, denoteVec_vecOf, dvals_mvpElems]
    simp only [denoteVec]
    rw [sameElements_vals ρ self u hs H1 H2]
  · rw [h] at h'; cases h'; rfl

example : vvarDot ⟨"x", 3, [⟨"x[0]", 1⟩, ⟨"x[1]", 2⟩]⟩ (.mvp [[1, 2], [3, 4]] (.vars ⟨"x[0:2]", 7, [⟨"x[0]", 1⟩, ⟨"x[1]", 2⟩]⟩))
    = .ok (.quad (.vars ⟨"x", 3, [⟨"x[0]", 1⟩, ⟨"x[1]", 2⟩]⟩) [[1, 2], [3, 4]]) := rfl

/-- `LinearCombination(c, x)` (`c @ x`, `x @ c`): lengths agree, value `np.dot(c, x)` -/
theorem linComb_denote (cs : List Rat) (v : Vec) (e : Expr) (h : mkLinComb cs v = .ok e) :
    cs.length = (denoteVec ρ σ v).length ∧ denote ρ σ e = wsum cs (denoteVec ρ σ v) := by
  obtain ⟨he, hl⟩ := mkLinComb_ok h
  exact ⟨by rw [hl, size'_eq ρ σ], by rw [he]; rfl⟩

/-- `MatrixVectorProduct(A, x)` (`A @ x` for a 2-d array): `A.shape[1] == len(x)`, elements `A[i] · x` -/
theorem mvp_denote (q : List (List Rat)) (v : Vec) (p : List (List Rat) × Vec) (h : mkMVP q v = .ok p) :
    (q.head?.map List.length).getD 0 = (denoteVec ρ σ v).length ∧
    dvals ρ σ (mvpElems p.1 p.2) = matVec q (denoteVec ρ σ v) := by
  obtain ⟨hp, hl⟩ := mkMVP_ok h
  subst hp
  exact ⟨by rw [hl, size'_eq ρ σ], dvals_mvpElems ρ σ q v⟩

/-- `QuadraticForm(x, Q)`: `Q` square of the size of `x`, value `x · (Q @ x)` -/
theorem quad_denote (v : Vec) (q : List (List Rat)) (e : Expr) (h : mkQuadArr v q = .ok e) :
    q.length = (q.head?.map List.length).getD 0 ∧ q.length = (denoteVec ρ σ v).length ∧
    denote ρ σ e = dotp (denoteVec ρ σ v) (matVec q (denoteVec ρ σ v)) := by
  obtain ⟨he, h1, h2⟩ := mkQuadArr_ok h
  exact ⟨h1, by rw [h2, size'_eq ρ σ], by rw [he]; rfl⟩

/-- `norm(ord)`: `sqrt(x · x)` for 2, `sum(|x_i|)` for 1, an error for any other order -/
theorem norm_denote (v : Vec) (ord : Int) :
    (ord = 2 → ∃ e, vecNorm v ord = .ok e ∧
      denote ρ σ e = unop .sqrt (dotp (denoteVec ρ σ v) (denoteVec ρ σ v))) ∧
    (ord = 1 → ∃ e, vecNorm v ord = .ok e ∧
      denote ρ σ e = NumAlg.sum ((denoteVec ρ σ v).map (unop .abs))) ∧
    (ord ≠ 2 → ord ≠ 1 → vecNorm v ord = .error .invalidOperation) := by
  refine ⟨?_, ?_, ?_⟩
  · intro h; subst h; exact ⟨_, rfl, rfl⟩
  · intro h; subst h; exact ⟨_, rfl, rfl⟩
  · intro h2 h1; simp [vecNorm, h2, h1]

/-- element-wise matrix operations (`_matrix_binary_op`): scalar broadcast, or the same shape -/
theorem matrixBinaryOp_denote (left : MatLike) (right : Operand) (op : BinOp) (g : List (List Expr))
    (h : matrixBinaryOp left right op = .ok g) :
    ∃ rv, matOperandVals ρ σ (gridShape left.elems) right = some rv ∧
      gvals ρ σ g = List.zipWith (List.zipWith (binop op)) (left.vals ρ σ) rv :=
  matrixBinaryOp_vals ρ σ left right op g h

/-- `other - M` and `other / M` (`__rsub__`, `__rtruediv__`): the other operand is on the left,
    element by element for an array (or, for `/`, a nested list) of the same shape -/
theorem matrixReflected_denote (self : MatLike) (other : Operand) (g : List (List Expr)) :
    (matrixRsub self other = .ok g →
      (∃ q, other = .pyNum q ∧
        gvals ρ σ g = (self.vals ρ σ).map fun row => row.map fun x => binop .sub (ofRat q) x) ∨
      (∃ a, other = .arr2 a ∧ gridShape a = gridShape self.elems ∧
        gvals ρ σ g = List.zipWith (List.zipWith (binop .sub)) (a.map fun row => row.map ofRat) (self.vals ρ σ))) ∧
    (matrixRdiv self other = .ok g →
      (∃ q, (other = .pyNum q ∨ other = .npNum q ∨ other = .arr0 q) ∧
        gvals ρ σ g = (self.vals ρ σ).map fun row => row.map fun x => binop .div (ofRat q) x) ∨
      (∃ a, (other = .arr2 a ∨ other = .list2 a) ∧ gridShape a = gridShape self.elems ∧
        gvals ρ σ g = List.zipWith (List.zipWith (binop .div)) (a.map fun row => row.map ofRat) (self.vals ρ σ))) :=
  ⟨matrixRsub_vals ρ σ self other g, matrixRdiv_vals ρ σ self other g⟩

/-- `.sum()` of a matrix -/
theorem matrixSum_denote (m : MatV) (g : List (List Expr)) :
    denote ρ σ (matrixSum (.mvar m)) = NumAlg.sum (valsOf ρ m.rows.flatten) ∧
    denote ρ σ (matrixSum (.mexpr g)) = NumAlg.sum (gvals ρ σ g).flatten :=
  ⟨matrixSum_mvar ρ σ m, matrixSum_mexpr ρ σ g⟩

omit [NumAlg α] in
/-- rows / columns iteration and `A[i, j]`, `A.T`: values of the views are rows / columns of the
    value matrix -/
theorem rows_cols_denote (m : MatV) (base : Nat) :
    (matRowsIter m base).map (fun r => valsOf ρ r.vars) = m.rows.map (valsOf ρ) ∧
    (matColsIter m base).map (fun c => valsOf ρ c.vars) = (transposeGrid m.rows).map (valsOf ρ) := by
  constructor
  · have := congrArg (List.map (valsOf ρ)) (matRowsIter_vars m base)
    simpa [List.map_map, Function.comp_def] using this
  · have := congrArg (List.map (valsOf ρ)) (matColsIter_vars m base)
    simpa [List.map_map, Function.comp_def] using this

omit [NumAlg α] in
/-- `diagonal()` / `diag(M)`: square matrices only; the view holds the diagonal element objects -/
theorem diagonal_denote (m : MatV) (oid : Nat) :
    (∀ d, matDiagonal m oid = .ok d → m.nrows = m.ncols ∧ d.vars = diagVars m.rows ∧
      ∀ i, i < m.nrows → (valsOf ρ d.vars)[i]? = some (ρ ((m.rows.getD i []).getD i default).name)) ∧
    (m.nrows ≠ m.ncols → matDiagonal m oid = .error .squareMatrix) := by
  constructor
  · intro d h
    obtain ⟨hs, hd⟩ := matDiagonal_ok h
    refine ⟨hs, hd, fun i hi => ?_⟩
    rw [hd]; simp [valsOf, List.getElem?_map, diagVars_getElem? i hi]
  · intro h; simp [matDiagonal, h]

end Generic

/-- `MatrixVariable @ vector`: the accumulating loop denotes `A @ x` (row · vector); ℝ -/
theorem matmulVector_denote (ρ : String → ℝ) (σ : Nat → ℝ) (m : MatV) (v : Vec) (es : List Expr)
    (h : matmulVector m v = .ok es) :
    m.ncols = (denoteVec ρ σ v).length ∧
    dvals ρ σ es = m.rows.map fun row => dotp (valsOf ρ row) (denoteVec ρ σ v) :=
  matmulVector_vals ρ σ m v es h

/-- `trace()`: square matrices only; the left-nested sum denotes the sum of the diagonal; ℝ -/
theorem trace_denote (ρ : String → ℝ) (σ : Nat → ℝ) (m : MatV) (e : Expr) (h : matTrace m = .ok e) :
    m.nrows = m.ncols ∧ denote ρ σ e = NumAlg.sum (valsOf ρ (diagVars m.rows)) :=
  matTrace_val ρ σ m e h

/-- `A.T.T` has the elements of `A` again (and the same flags) -/
theorem T_T (m : MatV) (a b : Nat) (hr : Rect m.rows) (hc : 0 < m.ncols) (h0 : 0 < m.nrows) :
    (matT (matT m a) b).rows = m.rows ∧ (matT (matT m a) b).isTranspose = m.isTranspose ∧
    (matT (matT m a) b).symmetric = m.symmetric := matT_T m a b hr hc h0

/-- `A.T[i, j] is A[j, i]` -/
theorem transpose_entry (m : MatV) (oid i j : Nat) (hi : i < m.ncols) (hj : j < m.nrows) :
    ((matT m oid).rows.getD i []).getD j default = (m.rows.getD j []).getD i default :=
  matT_entry m oid i j hi hj

/-- a symmetric `MatrixVariable` holds the same object at `(i, j)` and `(j, i)` -/
theorem symmetric_entry (name : String) (n : Int) (base nx : Nat) (m : MatV)
    (h : mkMatrix name n n true base = .ok (m, nx)) (i j : Nat) (hi : i < n.toNat) (hj : j < n.toNat) :
    (m.rows.getD i []).getD j default = (m.rows.getD j []).getD i default := by
  rw [mkMatrix_entry h i j hi hj, mkMatrix_entry h j i hj hi]
  exact matEntry_symm name n.toNat base i j

/-- … and pairwise distinct objects on and above the diagonal (every entry of a plain matrix) -/
theorem symmetric_upper_distinct (name : String) (rows cols : Int) (sym : Bool) (base nx : Nat) (m : MatV)
    (h : mkMatrix name rows cols sym base = .ok (m, nx)) (i j i' j' : Nat)
    (hi : i < rows.toNat) (hj : j < cols.toNat) (hi' : i' < rows.toNat) (hj' : j' < cols.toNat)
    (hu : sym = true → i ≤ j ∧ i' ≤ j')
    (heq : ((m.rows.getD i []).getD j default).oid = ((m.rows.getD i' []).getD j' default).oid) :
    i = i' ∧ j = j' := by
  rw [mkMatrix_entry h i j hi hj, mkMatrix_entry h i' j' hi' hj'] at heq
  unfold matEntry at heq
  cases sym with
  | false => simpa using freshEntry_oid_inj name name cols.toNat base i j i' j' hj hj' (by simpa using heq)
  | true =>
    obtain ⟨h1, h2⟩ := hu rfl
    have n1 : ¬ j < i := by omega
    have n2 : ¬ j' < i' := by omega
    simp only [Bool.true_and, decide_eq_true_eq, n1, n2, if_false] at heq
    exact freshEntry_oid_inj name name cols.toNat base i j i' j' hj hj' heq

example : ∃ m nx, mkMatrix "S" 2 2 true 1 = .ok (m, nx) ∧
    (m.rows.getD 1 []).getD 0 default = (m.rows.getD 0 []).getD 1 default := ⟨_, _, rfl, rfl⟩

/-- `A[i, j]` with integer keys (negative keys count from the end; out of range raises `IndexError`) -/
theorem matGetItem_entry (m : MatV) (i j : Int) (oid : Nat) :
    (∀ item, matGetItem m true (.int i) (.int j) oid = .ok item →
      ∃ i' j', normIndex m.nrows i = .ok i' ∧ normIndex m.ncols j = .ok j' ∧
        item = .var ((m.rows.getD i' []).getD j' default)) ∧
    (∀ k, matGetItem m false k k oid = .error .invalidOperation) :=
  ⟨fun _ h => matGetItem_int_int h, fun _ => rfl⟩

/-- `diag_matrix(x)`: `x`'s own elements on the diagonal, fresh variables fixed at 0 elsewhere -/
theorem diagMatrix_entry (v : VVar) (base : Nat) :
    diagVars (diagMatrix v base).1.rows = v.vars ∧
    (∀ i j, i < v.vars.length → j < v.vars.length →
      ((diagMatrix v base).1.rows.getD i []).getD j default = diagEntry v base i j) ∧
    (∀ nv ∈ (diagMatrix v base).2.1, nv.lb = some 0 ∧ nv.ub = some 0) :=
  ⟨diagMatrix_diagonal v base, fun i j hi hj => Py.Api.diagMatrix_entry v base i j hi hj,
   diagMatrix_news_bounds v base⟩

/-- operands of incompatible shapes are rejected with an error by every binary operation -/
theorem shape_mismatch_raises :
    (∀ (left : VecLike) (right : Operand) (op : BinOp) (m : Nat),
      (right.isVecObj = true ∨ (∃ w k, right = .epow w k) ∨ (∃ xs, right = .arr1 xs) ∨ (∃ xs, right = .list1 xs)) →
      right.len? = some m ∨ (∃ w k, right = .epow w k ∧ w.vars.length = m) → m ≠ left.elems.length →
      vectorBinaryOp left right op = .error .dimensionMismatch) ∧
    (∀ (vector : VecLike) (xs : List Rat) (op : BinOp), xs.length ≠ vector.elems.length →
      vectorReflectedOp vector (.arr1 xs) op = .error .dimensionMismatch ∧
      vectorReflectedOp vector (.list1 xs) op = .error .dimensionMismatch) ∧
    (∀ (left : Vec) (right : Operand) (m : Nat), right.len? = some m → Vec.size' left ≠ m →
      mkDot left right = .error .dimensionMismatch) ∧
    (∀ (cs : List Rat) (v : Vec), cs.length ≠ Vec.size' v → mkLinComb cs v = .error .dimensionMismatch) ∧
    (∀ (q : List (List Rat)) (v : Vec), (q.head?.map List.length).getD 0 ≠ Vec.size' v →
      mkMVP q v = .error .dimensionMismatch) ∧
    (∀ (q : List (List Rat)) (v : Vec), q.length = (q.head?.map List.length).getD 0 → q.length ≠ Vec.size' v →
      mkQuadArr v q = .error .dimensionMismatch) ∧
    (∀ (left : MatLike) (right : Operand) (op : BinOp),
      (match right with
        | .arr2 r | .list2 r | .mexpr r => gridShape r ≠ gridShape left.elems
        | .mvar w => (w.nrows, w.ncols) ≠ gridShape left.elems
        | .arr0 _ | .arr1 _ | .list1 _ | .arrN _ _ => True
        | _ => False) →
      matrixBinaryOp left right op = .error .dimensionMismatch) ∧
    (∀ (m : MatV) (v : Vec), m.ncols ≠ Vec.size' v → matmulVector m v = .error .dimensionMismatch) := by
  refine ⟨?_, ?_, ?_, ?_, ?_, ?_, ?_, ?_⟩
  · intro left right op m hk hm hne
    rcases hk with hk | ⟨w, k, rfl⟩ | ⟨xs, rfl⟩ | ⟨xs, rfl⟩
    · rcases hm with hm | ⟨w, k, rfl, _⟩
      · cases right <;> simp [Operand.isVecObj] at hk <;>
          simp [Operand.len?] at hm <;> subst hm <;> simp [vectorBinaryOp, vbinRight, hne]
      · simp [Operand.isVecObj] at hk
    · rcases hm with hm | ⟨w', k', hw, hl⟩
      · simp [Operand.len?] at hm
      · cases hw; subst hl; simp [vectorBinaryOp, vbinRight, hne]
    · rcases hm with hm | ⟨w', k', hw, _⟩
      · simp [Operand.len?] at hm; subst hm; simp [vectorBinaryOp, vbinRight, hne]
      · cases hw
    · rcases hm with hm | ⟨w', k', hw, _⟩
      · simp [Operand.len?] at hm; subst hm; simp [vectorBinaryOp, vbinRight, hne]
      · cases hw
  · intro vector xs op hne
    simp [vectorReflectedOp, hne]
  · intro left right m hm hne
    simp [mkDot, hm, hne]
  · intro cs v hne; simp [mkLinComb, hne]
  · intro q v hne; simp [mkMVP, hne]
  · intro q v hsq hne
    have hne' : ¬ (q.head?.map List.length).getD 0 = Vec.size' v := by rw [← hsq]; exact hne
    simp [mkQuadArr, hsq, hne']
  · intro left right op h
    cases right <;> simp at h <;> simp [matrixBinaryOp, mbinRight, h]
  · intro m v hne; simp [matmulVector, Vec.size'] at hne ⊢; simp [hne]

example : vectorBinaryOp (.vvar ⟨"x", 9, [⟨"x[0]", 1⟩, ⟨"x[1]", 2⟩]⟩) (.arr1 [1, 2, 3]) .add
    = .error .dimensionMismatch := rfl

/-- distinct element names stay distinct in every view: slices, matrix rows, transposes -/
theorem distinct_preserved (v w : VVar) (sl : PySlice) (oid : Nat) (h : vSlice v sl oid = .ok w)
    (hd : (v.vars.map (·.name)).Nodup) : (w.vars.map (·.name)).Nodup := by
  obtain ⟨hs, _, _⟩ := vSlice_ok h
  have := pyGetSlice_map (fun x : Var => x.name) v.vars sl
  rw [hs] at this
  exact pyGetSlice_nodup hd this

end Optyx.Props.C11
