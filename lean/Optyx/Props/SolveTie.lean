/-
  Optyx.Props.SolveTie — the hand-written model of what `solve_scipy` does after `scipy.optimize.minimize` returned
  (`Py.Solve.accepted`, `conViolated`, `bndViolated`, `violatedAt`, `statusOf`, `postPass`, `finish` — the functions the
  C06 / C07 theorems are about) is, extensionally, the code translated statement by statement from the post-processing
  segment of `solve_scipy` on every run (`Generated/ScipyPost.lean`, harness/py2lean_post.py).

  A changed comparison (`<` → `<=`), tolerance formula, loop guard, branch order of the status chain, retry condition or
  sign of the reported objective changes the generated functions and these equalities are re-checked against them.
-/
import Optyx.Py.Solve
import Optyx.Generated.ScipyPost
import Optyx.Generated.SolverGlue

namespace Optyx.Props.SolveTie
open Optyx Optyx.Py.Solve Optyx.Generated Optyx.Py.Post

theorem absQ_eq (a : Rat) : absQ a = postAbs a := rfl
theorem maxQ_eq (a b : Rat) : maxQ a b = postMax a b := rfl

/-- default tolerance: `atol = tol if tol is not None else 1e-6` -/
theorem atol_eq (c : ScipyCfg) : c.atol = postAtolG c.tol := by
  unfold ScipyCfg.atol postAtolG
  cases c.tol <;> rfl

theorem rtol_eq (c : ScipyCfg) : c.rtol = postRtolG := rfl

/-- `c["type"]` of a SciPy constraint dictionary (the strings are those of `Generated.SolverGlue`'s constraint rows) -/
def ctypeOf (c : SCon) : String := if c.isEq then "eq" else "ineq"

theorem scaledTol_eq (atol rtol v : Rat) : scaledTol atol rtol v = atol + rtol * postMax 1 (postAbs v) := rfl

theorem ite_tf (p : Prop) [Decidable p] : (if p then true else false) = decide p := by
  by_cases h : p <;> simp [h]

/-- one iteration of the constraint loop -/
theorem conViolated_eq (atol rtol : Rat) (c : SCon) (x : List Rat) :
    conViolated atol rtol c x = conViolatedG atol rtol (ctypeOf c) (c.f x) := by
  unfold conViolated conViolatedG ctypeOf scaledTol
  cases h : c.isEq <;> simp [absQ_eq, maxQ_eq] <;> rfl

/-- one iteration of the bounds loop -/
theorem bndViolated_eq (atol rtol : Rat) (b : Bnd) (xi : Rat) :
    bndViolated atol rtol b xi = bndViolatedG atol rtol b.lb b.ub xi := by
  unfold bndViolated bndViolatedG ubViolated scaledTol
  cases hl : b.lb <;> cases hu : b.ub <;> simp [absQ_eq, maxQ_eq]
  rename_i lb
  by_cases h : xi < lb - (atol + rtol * postMax 1 (postAbs lb)) <;> simp [h]

/-- the three-bit abstraction of `result.message` the model keeps, as a function of the substring tests -/
def msgOf (has : String → Bool) : Msg :=
  ⟨has "maximum" && has "iteration", has "infeasible", has "positive directional derivative"⟩

theorem accepted_eq (r : ScipyResult) (has : String → Bool) :
    accepted { r with msg := msgOf has } = acceptedG r.success has := rfl

/-- the status chain, for every outcome of the substring tests -/
theorem statusOf_eq (r : ScipyResult) (has : String → Bool) (v : Bool) :
    (statusOf { r with msg := msgOf has } v).name = statusG r.success v has := by
  unfold statusOf statusG msgOf
  cases r.success <;> cases v <;> cases has "maximum" <;> cases has "iteration" <;> cases has "infeasible"
    <;> cases has "positive directional derivative" <;> rfl

/-- `constraints_violated` after both loops, with the loops' guards -/
theorem violatedAt_eq (atol rtol : Rat) (cons : List SCon) (bnds : List Bnd) (r : ScipyResult) :
    violatedAt atol rtol cons bnds r =
      ((conLoopGuardG (accepted r) (!cons.isEmpty) && cons.any (fun c => conViolatedG atol rtol (ctypeOf c) (c.f r.x)))
        || (bndLoopGuardG (accepted r) && (bnds.zip r.x).any (fun p => bndViolatedG atol rtol p.1.lb p.1.ub p.2))) := by
  unfold violatedAt conLoopGuardG bndLoopGuardG
  have h1 : (fun c => conViolated atol rtol c r.x) = (fun c => conViolatedG atol rtol (ctypeOf c) (c.f r.x)) :=
    funext fun c => conViolated_eq atol rtol c r.x
  have h2 : (fun p : Bnd × Rat => bndViolated atol rtol p.1 p.2)
      = (fun p => bndViolatedG atol rtol p.1.lb p.1.ub p.2) :=
    funext fun p => bndViolated_eq atol rtol p.1 p.2
  rw [h1, h2]
  cases accepted r <;> cases cons <;> simp

/-- the retry is taken exactly when the translated condition holds -/
theorem postPass_retry_iff (c : ScipyCfg) (method : String) (r : ScipyResult) (hx : c.names.length ≤ r.x.length) :
    postPass c method r = .retry ↔ retryG (violatedAt c.atol c.rtol c.scons c.bnds r) method = true := by
  unfold postPass retryG
  have : ¬ r.x.length < c.names.length := Nat.not_lt.mpr hx
  simp only [this, if_false]
  split <;> simp_all

/-- the method of the recursive call and everything else it passes on -/
theorem retryKwargs_pin :
    retryKwargsG = [("problem", "problem"), ("method", "'trust-constr'"), ("x0", "x0"), ("tol", "tol"),
      ("maxiter", "maxiter"), ("use_hessian", "use_hessian"), ("strict", "strict"), ("**", "kwargs")] := by decide

/-- the reported objective value undoes the negation under `maximize` -/
theorem finish_objective_eq (c : ScipyCfg) (r : ScipyResult) (v : Bool) :
    (finish c r v).objective = some (objValueG c.maximize r.fn) := by
  unfold finish objValueG
  cases c.maximize <;> rfl

theorem finish_status_eq (c : ScipyCfg) (r : ScipyResult) (has : String → Bool) (v : Bool) :
    (finish c { r with msg := msgOf has } v).status.name = statusG r.success v has :=
  statusOf_eq r has v

/-- what the final `Solution(...)` is built from -/
theorem solutionKwargs_pin :
    solutionKwargsG = [("status", "status"), ("objective_value", "obj_value"),
      ("values", "{v.name: float(result.x[i]) for i, v in enumerate(variables)}"),
      ("iterations", "result.nit if hasattr(result, 'nit') else None"), ("message", "message"),
      ("solve_time", "solve_time")] := by decide

/-- **C07 directly about translated code**: `_build_solver_cache` hands SciPy `-f` exactly under `maximize`
    (`Generated.glueNegateOnMaximize`, from the source), SciPy's contract is `result.fun = (that function)(result.x)`, and the
    post-processing reports `objValueG maximize result.fun`: the reported objective is the user's `f(x*)` again, in the user's
    orientation, for both senses -/
theorem reported_objective_of_source_equations (maximize : Bool) (fx : Rat) :
    objValueG maximize (if (glueNegateOnMaximize && maximize) = true then -fx else fx) = fx := by
  unfold objValueG
  cases maximize <;> simp [glueNegateOnMaximize]

/-- all ties of this file, for the audit -/
theorem post_processing_is_source :
    (∀ c : ScipyCfg, c.atol = postAtolG c.tol ∧ c.rtol = postRtolG)
    ∧ (∀ (atol rtol : Rat) (c : SCon) (x : List Rat), conViolated atol rtol c x = conViolatedG atol rtol (ctypeOf c) (c.f x))
    ∧ (∀ (atol rtol : Rat) (b : Bnd) (xi : Rat), bndViolated atol rtol b xi = bndViolatedG atol rtol b.lb b.ub xi)
    ∧ (∀ (r : ScipyResult) (has : String → Bool), accepted { r with msg := msgOf has } = acceptedG r.success has)
    ∧ (∀ (r : ScipyResult) (has : String → Bool) (v : Bool), (statusOf { r with msg := msgOf has } v).name = statusG r.success v has)
    ∧ (∀ (c : ScipyCfg) (r : ScipyResult) (v : Bool), (finish c r v).objective = some (objValueG c.maximize r.fn)) :=
  ⟨fun c => ⟨atol_eq c, rtol_eq c⟩, conViolated_eq, bndViolated_eq, accepted_eq, statusOf_eq, finish_objective_eq⟩

end Optyx.Props.SolveTie
