/-
  Optyx.Props.PinsC10 — transcription anchors of C10 (harness/source_pins.py).
  Each theorem says: the function the hand-written model of C10 was read from has, in the source of this run,
  the fingerprint of the text it was read from.  Rewritten only by `source_pins.py --update` after a reviewed change.
-/
import Optyx.Generated.PinsC10

namespace Optyx.Props.PinsC10
open Optyx.Generated.PinsC10

/-- `_make_constraint` (constraints.py) -/
theorem pin_constraints_make_constraint_anchor : pin_constraints_make_constraint = "f94a0d73e3549836" := rfl
/-- `solve_scipy` (solvers/scipy_solver.py) -/
theorem pin_scipy_solver_solve_scipy_anchor : pin_scipy_solver_solve_scipy = "e7c69a3a73fa09d9" := rfl

/-- every function the model of C10 transcribes (and no translator covers) is the one it was read from -/
theorem anchors : pin_constraints_make_constraint = "f94a0d73e3549836" ∧ pin_scipy_solver_solve_scipy = "e7c69a3a73fa09d9" :=
  ⟨pin_constraints_make_constraint_anchor, pin_scipy_solver_solve_scipy_anchor⟩

end Optyx.Props.PinsC10
