/-
  Optyx.Props.PinsC20 — transcription anchors of C20 (harness/source_pins.py).
  Each theorem says: the function the hand-written model of C20 was read from has, in the source of this run,
  the fingerprint of the text it was read from.  Rewritten only by `source_pins.py --update` after a reviewed change.
-/
import Optyx.Generated.PinsC20

namespace Optyx.Props.PinsC20
open Optyx.Generated

/-- `Problem.solve` (problem.py) -/
theorem pin_problem_Problem_solve_anchor : pin_problem_Problem_solve = "f4e2acd2b640d4bc" := rfl
/-- `increased_recursion_limit` (core/autodiff.py) -/
theorem pin_autodiff_increased_recursion_limit_anchor : pin_autodiff_increased_recursion_limit = "7a8553786ac9be91" := rfl

/-- every function the model of C20 transcribes (and no translator covers) is the one it was read from -/
theorem anchors : pin_problem_Problem_solve = "f4e2acd2b640d4bc" ∧ pin_autodiff_increased_recursion_limit = "7a8553786ac9be91" :=
  ⟨pin_problem_Problem_solve_anchor, pin_autodiff_increased_recursion_limit_anchor⟩

end Optyx.Props.PinsC20
