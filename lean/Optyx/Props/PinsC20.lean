/-
  Optyx.Props.PinsC20 — transcription anchors of C20 (harness/source_pins.py).
  Each theorem says: the function the hand-written model of C20 was read from has, in the source of this run,
  the fingerprint of the text it was read from.  Rewritten only by `source_pins.py --update` after a reviewed change.
-/
import Optyx.Generated.PinsC20

namespace Optyx.Props.PinsC20
open Optyx.Generated.PinsC20

/-- `Problem.solve` (problem.py) -/
theorem pin_problem_Problem_solve_anchor : pin_problem_Problem_solve = "f4e2acd2b640d4bc" := rfl
/-- `solve_scipy` (solvers/scipy_solver.py) -/
theorem pin_scipy_solver_solve_scipy_anchor : pin_scipy_solver_solve_scipy = "e7c69a3a73fa09d9" := rfl
/-- `solve_lp` (solvers/lp_solver.py) -/
theorem pin_lp_solver_solve_lp_anchor : pin_lp_solver_solve_lp = "244fed8ae6b2b560" := rfl
/-- `compile_gradient` (core/compiler.py) -/
theorem pin_compiler_compile_gradient_anchor : pin_compiler_compile_gradient = "19d1f93c3bdc18f8" := rfl
/-- `_compile_vectorized_power_gradient` (core/compiler.py) -/
theorem pin_compiler_compile_vectorized_power_gradient_anchor : pin_compiler_compile_vectorized_power_gradient = "abe0e8d8d48a69e7" := rfl
/-- `_compile_vectorized_unary_gradient` (core/compiler.py) -/
theorem pin_compiler_compile_vectorized_unary_gradient_anchor : pin_compiler_compile_vectorized_unary_gradient = "6e886c928b66b5e2" := rfl
/-- `compile_jacobian` (core/autodiff.py) -/
theorem pin_autodiff_compile_jacobian_anchor : pin_autodiff_compile_jacobian = "40a13139a06a856b" := rfl
/-- `compile_hessian` (core/autodiff.py) -/
theorem pin_autodiff_compile_hessian_anchor : pin_autodiff_compile_hessian = "50982ad58c3902f9" := rfl

/-- every function the model of C20 transcribes (and no translator covers) is the one it was read from -/
theorem anchors : pin_problem_Problem_solve = "f4e2acd2b640d4bc" ∧ pin_scipy_solver_solve_scipy = "e7c69a3a73fa09d9" ∧ pin_lp_solver_solve_lp = "244fed8ae6b2b560" ∧ pin_compiler_compile_gradient = "19d1f93c3bdc18f8" ∧ pin_compiler_compile_vectorized_power_gradient = "abe0e8d8d48a69e7" ∧ pin_compiler_compile_vectorized_unary_gradient = "6e886c928b66b5e2" ∧ pin_autodiff_compile_jacobian = "40a13139a06a856b" ∧ pin_autodiff_compile_hessian = "50982ad58c3902f9" :=
  ⟨pin_problem_Problem_solve_anchor, pin_scipy_solver_solve_scipy_anchor, pin_lp_solver_solve_lp_anchor, pin_compiler_compile_gradient_anchor, pin_compiler_compile_vectorized_power_gradient_anchor, pin_compiler_compile_vectorized_unary_gradient_anchor, pin_autodiff_compile_jacobian_anchor, pin_autodiff_compile_hessian_anchor⟩

end Optyx.Props.PinsC20
