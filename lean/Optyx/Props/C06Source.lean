/-
  Optyx.Props.C06Source — C06 stated **directly about the code translated from the source** (no hand-written model in
  between): the constraint table of `_build_solver_cache` (`Generated.SolverGlue.glueConTable`), the post-processing of
  `solve_scipy` (`Generated.ScipyPost`: `acceptedG`, the two loops, `statusG`) and `Constraint.violation`
  (`Generated.ConstraintFns.violationG`), all regenerated on every run.

  `optimal_feasible_of_source_equations`: whatever `minimize` returned (success flag, message, point) — if the status
  chain of the source answers OPTIMAL then every user constraint's `violation` at the returned point is within
  `atol + rtol·max(1, |value|)` and every finite declared bound holds within the same scaled tolerance.
-/
import Optyx.Generated.SolverGlue
import Optyx.Generated.ScipyPost
import Optyx.Generated.ConstraintFns
import Mathlib.Tactic.Linarith

namespace Optyx.Props.C06Source
open Optyx Optyx.Generated Optyx.Py.Post

/-- the row of the translated sense chain of `_build_solver_cache` for a constraint sense (`else` = the last branch) -/
def rowOf (sense : String) : GlueCon :=
  match glueConTable.find? (fun r => r.sense == sense) with
  | some r => r
  | none => (glueConTable.find? (fun r => r.sense == "else")).getD ⟨"else", "eq", false, false⟩

/-- the SciPy dictionary (`type`, value of `fun` at the returned point) of the user constraint `g sense 0` -/
def dictOf (c : String × Rat) : String × Rat :=
  ((rowOf c.1).type, if (rowOf c.1).funNeg then -c.2 else c.2)

/-- `constraints_violated` after both loops of the source; `cons` = the dictionaries, `bnds` = (lb, ub, x_i) -/
def violatedSrc (atol rtol : Rat) (accepted : Bool) (cons : List (String × Rat))
    (bnds : List (Option Rat × Option Rat × Rat)) : Bool :=
  (conLoopGuardG accepted (!cons.isEmpty) && cons.any (fun c => conViolatedG atol rtol c.1 c.2))
    || (bndLoopGuardG accepted && bnds.any (fun b => bndViolatedG atol rtol b.1 b.2.1 b.2.2))

/-- the scaled tolerance of the source -/
def tolAt (atol rtol v : Rat) : Rat := atol + rtol * postMax 1 (postAbs v)

theorem status_optimal (success violated : Bool) (has : String → Bool)
    (h : statusG success violated has = "OPTIMAL") : violated = false ∧ acceptedG success has = true := by
  unfold statusG at h
  unfold acceptedG
  cases success <;> cases violated <;> cases h1 : has "maximum" <;> cases h2 : has "iteration"
    <;> cases h3 : has "infeasible" <;> cases h4 : has "positive directional derivative"
    <;> simp_all <;> revert h <;> decide

theorem postAbs_neg (a : Rat) : postAbs (-a) = postAbs a := by
  unfold postAbs
  by_cases h1 : a < 0 <;> by_cases h2 : -a < 0 <;> simp [h1, h2] <;> linarith

theorem le_postAbs (a : Rat) : a ≤ postAbs a := by
  unfold postAbs; split <;> linarith

theorem neg_le_postAbs (a : Rat) : -a ≤ postAbs a := by
  unfold postAbs; split <;> linarith

theorem postAbs_nonneg (a : Rat) : 0 ≤ postAbs a := by
  unfold postAbs; split <;> linarith

theorem postMax_ge_left (a b : Rat) : a ≤ postMax a b := by
  unfold postMax; split <;> linarith

theorem tolAt_nonneg {atol rtol : Rat} (hat : 0 ≤ atol) (hrt : 0 ≤ rtol) (v : Rat) : 0 ≤ tolAt atol rtol v := by
  unfold tolAt
  have : (0 : Rat) ≤ postMax 1 (postAbs v) := le_trans (by norm_num) (postMax_ge_left 1 _)
  nlinarith

/-- one dictionary passes the constraint loop ⇒ the user's violation is within the scaled tolerance -/
theorem con_ok (atol rtol : Rat) (hat : 0 ≤ atol) (hrt : 0 ≤ rtol) (c : String × Rat)
    (hs : c.1 ∈ constraintSensesG)
    (h : conViolatedG atol rtol (dictOf c).1 (dictOf c).2 = false) :
    violationG c.1 c.2 ≤ tolAt atol rtol c.2 := by
  have h0 := tolAt_nonneg hat hrt c.2
  have hs' : c.1 = "<=" ∨ c.1 = ">=" ∨ c.1 = "==" := by
    simpa [constraintSensesG] using hs
  obtain ⟨s, g⟩ := c
  simp only at hs' h h0 ⊢
  rcases hs' with rfl | rfl | rfl
  · -- `<=`: ineq, fun = -g
    have hr : rowOf "<=" = ⟨"<=", "ineq", true, true⟩ := by decide
    simp only [dictOf, hr, conViolatedG, if_true] at h
    have hd1 : ("ineq" == "ineq") = true := by decide
    have hd2 : ("ineq" == "eq") = false := by decide
    simp only [hd1, hd2, Bool.true_and, Bool.false_and, postAbs_neg] at h
    unfold violationG tolAt postMax at *
    simp at h ⊢
    split <;> first | linarith | (simp_all; try linarith)
  · -- `>=`: ineq, fun = g
    have hr : rowOf ">=" = ⟨">=", "ineq", false, false⟩ := by decide
    simp only [dictOf, hr, conViolatedG] at h
    have hd1 : ("ineq" == "ineq") = true := by decide
    have hd2 : ("ineq" == "eq") = false := by decide
    simp only [hd1, hd2, Bool.true_and, Bool.false_and] at h
    unfold violationG tolAt postMax at *
    have e1 : ((">=" : String) == "<=") = false := by decide
    have e2 : ((">=" : String) == ">=") = true := by decide
    simp [e1] at h ⊢
    split <;> first | linarith | (simp_all; try linarith)
  · -- `==`: eq, fun = g
    have hr : rowOf "==" = ⟨"else", "eq", false, false⟩ := by decide
    simp only [dictOf, hr, conViolatedG] at h
    have hd1 : ("eq" == "ineq") = false := by decide
    have hd2 : ("eq" == "eq") = true := by decide
    simp only [hd1, hd2, Bool.true_and, Bool.false_and] at h
    unfold violationG tolAt at *
    have e1 : (("==" : String) == "<=") = false := by decide
    have e2 : (("==" : String) == ">=") = false := by decide
    simp [e1] at h ⊢
    linarith

/-- one bound triple passes the bounds loop ⇒ both finite bounds hold within their scaled tolerance -/
theorem bnd_ok (atol rtol : Rat) (lb ub : Option Rat) (xi : Rat)
    (h : bndViolatedG atol rtol lb ub xi = false) :
    (∀ l, lb = some l → l - tolAt atol rtol l ≤ xi) ∧ (∀ u, ub = some u → xi ≤ u + tolAt atol rtol u) := by
  unfold bndViolatedG at h
  unfold tolAt
  cases lb <;> cases ub <;> simp at h ⊢ <;> first | exact h | (constructor <;> linarith [h.1, h.2]) | linarith

/-- **C06 for whatever the source's equations define** -/
theorem optimal_feasible_of_source_equations (atol rtol : Rat) (hat : 0 ≤ atol) (hrt : 0 ≤ rtol)
    (success : Bool) (has : String → Bool)
    (cons : List (String × Rat)) (hs : ∀ c ∈ cons, c.1 ∈ constraintSensesG)
    (bnds : List (Option Rat × Option Rat × Rat))
    (h : statusG success (violatedSrc atol rtol (acceptedG success has) (cons.map dictOf) bnds) has = "OPTIMAL") :
    (∀ c ∈ cons, violationG c.1 c.2 ≤ tolAt atol rtol c.2)
    ∧ (∀ b ∈ bnds, (∀ l, b.1 = some l → l - tolAt atol rtol l ≤ b.2.2)
                  ∧ (∀ u, b.2.1 = some u → b.2.2 ≤ u + tolAt atol rtol u)) := by
  obtain ⟨hv, hacc⟩ := status_optimal _ _ _ h
  unfold violatedSrc conLoopGuardG bndLoopGuardG at hv
  rw [hacc] at hv
  simp only [Bool.true_and, Bool.or_eq_false_iff] at hv
  obtain ⟨hc, hb⟩ := hv
  constructor
  · intro c hcm
    have hne : (cons.map dictOf).isEmpty = false := by
      cases cons with
      | nil => cases hcm
      | cons a t => rfl
    simp only [hne, Bool.not_false, Bool.true_and] at hc
    have := List.any_eq_false.mp hc (dictOf c) (List.mem_map_of_mem hcm)
    exact con_ok atol rtol hat hrt c (hs c hcm) (by simpa using this)
  · intro b hbm
    have := List.any_eq_false.mp hb b hbm
    exact bnd_ok atol rtol b.1 b.2.1 b.2.2 (by simpa using this)

/-- non-vacuity: a successful result at a feasible point is reported OPTIMAL, and the theorem applies to it -/
example :
    statusG true (violatedSrc postRtolG postRtolG (acceptedG true fun _ => false)
      ([("<=", (-1 : Rat)), (">=", 2), ("==", 0)].map dictOf) [(some 0, some 3, 1), (none, some 5, 5)]) (fun _ => false)
      = "OPTIMAL" := by decide +kernel

/-- … and a "successful" result at a point violating `g <= 0` by 1 is not -/
example :
    statusG true (violatedSrc postRtolG postRtolG (acceptedG true fun _ => false)
      ([("<=", (1 : Rat))].map dictOf) []) (fun _ => false) = "INFEASIBLE" := by decide +kernel

end Optyx.Props.C06Source
