/-
  Optyx.Props.VarsStepTie — `Py.Api.exprVars` (the occurrences `Problem.variables` collects, C16) is the unique solution of the
  equations translated from the `get_variables` methods of all seventeen expression classes on every run
  (`Generated.varsStepG`, harness/py2lean_vars.py).
-/
import Optyx.Py.ProblemVars
import Optyx.Py.VarsSupport
import Optyx.Generated.VarsStep

namespace Optyx.Props.VarsStepTie
open Optyx Optyx.Py.Api Optyx.Generated

theorem listVarsRec_exprVars : (es : ExprList) → listVarsRec exprVars es = listVars es
  | .nil => rfl
  | .cons e t => by simp only [listVarsRec, listVars, listVarsRec_exprVars t]

/-- `e.get_variables()` as the source has it now -/
theorem exprVars_step (e : Expr) : exprVars e = varsStepG exprVars e := by
  cases e <;> simp only [exprVars, varsStepG, listVarsRec_exprVars] <;> (try rfl)
  all_goals (first
    | (rename_i v; cases v <;> simp only [vecVars] <;> rfl)
    | (rename_i l r; cases l <;> cases r <;> simp only [vecVars] <;> rfl)
    | (rename_i v q; cases v <;> simp only [vecVars] <;> rfl)
    | (rename_i cs v; cases v <;> simp only [vecVars] <;> rfl))

section
variable (f : Expr → List Var) (hf : ∀ e, f e = varsStepG f e)
include hf

mutual
theorem step_unique : (e : Expr) → f e = exprVars e
  | .const c => by rw [hf, exprVars_step]; rfl
  | .var x => by rw [hf, exprVars_step]; rfl
  | .param p => by rw [hf, exprVars_step]; rfl
  | .bin op l r => by rw [hf, exprVars_step]; simp only [varsStepG]; rw [step_unique l, step_unique r]
  | .un op a => by rw [hf, exprVars_step]; simp only [varsStepG]; rw [step_unique a]
  | .linComb cs v => by
    rw [hf, exprVars_step]
    cases v with
    | vars w => rfl
    | exprs es => simp only [varsStepG]; rw [list_unique es, listVarsRec_exprVars]
  | .vecSum v => by rw [hf, exprVars_step]; rfl
  | .exprSum es => by rw [hf, exprVars_step]; simp only [varsStepG]; rw [list_unique es, listVarsRec_exprVars]
  | .dot l r => by
    rw [hf, exprVars_step]
    cases l <;> cases r <;> simp only [varsStepG] <;>
      (try rw [list_unique _, listVarsRec_exprVars]) <;> (try rw [list_unique _, listVarsRec_exprVars])
  | .l2 v => by
    rw [hf, exprVars_step]
    cases v with
    | vars w => rfl
    | exprs es => simp only [varsStepG]; rw [list_unique es, listVarsRec_exprVars]
  | .l1 v => by
    rw [hf, exprVars_step]
    cases v with
    | vars w => rfl
    | exprs es => simp only [varsStepG]; rw [list_unique es, listVarsRec_exprVars]
  | .quad v q => by
    rw [hf, exprVars_step]
    cases v with
    | vars w => rfl
    | exprs es => simp only [varsStepG]; rw [list_unique es, listVarsRec_exprVars]
  | .powSum v k => by rw [hf, exprVars_step]; rfl
  | .unSum v op => by rw [hf, exprVars_step]; rfl
  | .matSumV m => by rw [hf, exprVars_step]; rfl
  | .matSumE es => by rw [hf, exprVars_step]; simp only [varsStepG]; rw [list_unique es, listVarsRec_exprVars]
  | .frob m => by rw [hf, exprVars_step]; rfl
theorem list_unique : (es : ExprList) → listVarsRec f es = listVars es
  | .nil => rfl
  | .cons e t => by simp only [listVarsRec, listVars]; rw [step_unique e, list_unique t]
end

end

/-- `MatrixVariable.get_variables`: upper triangle for a symmetric matrix, all entries row by row otherwise — as a set, the
    entries of the matrix (`m.flat`) -/
theorem matrixVariableGetVariables_text :
    matrixVariableGetVariablesTextG = "if self.symmetric: result: list[Variable] = [] for i in range(self.rows): for j in range(i, self.cols): result.append(self._variables[i][j]) return result else: return [var for row in self._variables for var in row]" := rfl

theorem source_equations_solvable : ∃ f : Expr → List Var, ∀ e, f e = varsStepG f e := ⟨exprVars, exprVars_step⟩

end Optyx.Props.VarsStepTie
