/-
  Optyx.Props.GradTie — the hand-written recursive differentiator `Py.grad` is the unique solution of the
  equations that harness/py2lean.py reads off the *current* source on every run:

    * the whole bodies of the twelve registered vector rules of `_register_vector_gradient_rules`
      (`Generated.linCombRuleG`, … — loops, first-match searches, `isinstance` splits included),
    * the dispatch of `gradient` / `_gradient_cached` (registered rule first, then the per-class branches;
      the BinaryOp / UnaryOp rule templates are `Generated.binaryRule` / `unaryRule` as before),

  assembled into the non-recursive step functional `Generated.gradStepG wrt recE`, where `recE` stands for
  every recursive call.  (`gradient`'s third tier, the explicit-stack `_gradient_iterative`, is related to the
  recursive one by `C02.rulesIter_eq` and the C15 theorems.)
-/
import Optyx.Py.Grad
import Optyx.Py.GradSupport
import Optyx.Generated.GradStep

namespace Optyx.Props.GradTie
open Optyx Optyx.Py Optyx.Generated

/-! ### each hand-written rule is the translated rule -/

theorem linCombRule_eq (wrt : Var) (cs : List Rat) (v : Vec) (dv : List Expr) (self : Expr) :
    linCombRule wrt cs v dv = linCombRuleG wrt cs v dv self := by
  cases v <;> simp only [linCombRule, linCombRuleG] <;> (try (cases findName wrt.name _ <;> rfl))

theorem vecSumRule_eq (wrt : Var) (v : VVar) (self : Expr) :
    vecSumRule wrt v = vecSumRuleG wrt v self := rfl

theorem exprSumRule_eq (wrt : Var) (es : ExprList) (dv : List Expr) (self : Expr) :
    exprSumRule dv = exprSumRuleG wrt es dv self := rfl

theorem matSumERule_eq (wrt : Var) (es : ExprList) (dv : List Expr) (self : Expr) :
    exprSumRule dv = matSumERuleG wrt es dv self := rfl

theorem dotRule_eq (wrt : Var) (l r : Vec) (dl dr : List Expr) (self : Expr) :
    dotRule wrt l r dl dr = dotRuleG wrt l r dl dr self := by
  cases l <;> cases r <;> simp only [dotRule, dotRuleG, vecFind]
  rename_i lv rv
  cases findName wrt.name lv.vars <;> cases findName wrt.name rv.vars <;> simp

theorem l2Rule_eq (wrt : Var) (v : Vec) (dv : List Expr) (self : Expr) :
    l2Rule wrt v dv self = l2RuleG wrt v dv self := by
  cases v <;> simp only [l2Rule, l2RuleG]

theorem l1Rule_eq (wrt : Var) (v : Vec) (dv : List Expr) (self : Expr) :
    l1Rule wrt v dv = l1RuleG wrt v dv self := by
  cases v <;> simp only [l1Rule, l1RuleG]

theorem quadRule_eq (wrt : Var) (v : Vec) (q : List (List Rat)) (dv : List Expr) (self : Expr) :
    quadRule wrt v q dv = quadRuleG wrt v q dv self := by
  cases v <;> simp only [quadRule, quadRuleG, quadInner] <;> (try (cases findName wrt.name _ <;> rfl))

theorem powSumRule_eq (wrt : Var) (v : VVar) (k : Rat) (self : Expr) :
    powSumRule wrt v k = powSumRuleG wrt v k self := by
  simp only [powSumRule, powSumRuleG]
  cases v.vars.find? (·.name == wrt.name) <;> rfl

theorem unSumRule_eq (wrt : Var) (v : VVar) (op : VOp) (self : Expr) :
    unSumRule wrt v op = unSumRuleG wrt v op self := by
  simp only [unSumRule, unSumRuleG]
  cases v.vars.find? (·.name == wrt.name) <;> rfl

theorem matSumVRule_eq (wrt : Var) (m : MVar) (self : Expr) :
    matSumVRule wrt m = matSumVRuleG wrt m self := by
  simp [matSumVRule, matSumVRuleG, Expr.c]

theorem frobRule_eq (wrt : Var) (m : MVar) (self : Expr) :
    frobRule wrt m self = frobRuleG wrt m self := by
  simp only [frobRule, frobRuleG]
  try (split <;> simp_all [Expr.c])

/-! ### the model satisfies the source's equations -/

theorem gradList_eq_map (wrt : Var) : (es : ExprList) → gradList wrt es = es.toList.map (grad wrt)
  | .nil => by simp [gradList, ExprList.toList]
  | .cons e t => by simp [gradList, ExprList.toList, gradList_eq_map wrt t]

theorem gradVec_eq_vecD (wrt : Var) (v : Vec) : gradVec wrt v = vecD (grad wrt) v := by
  cases v with
  | vars vv => simp [gradVec, vecD, grad]
  | exprs es => simp [gradVec, vecD, gradList_eq_map]

/-- `gradient(e, wrt)` as the source has it now: dispatch and every rule body -/
theorem grad_step (wrt : Var) (e : Expr) : grad wrt e = gradStepG wrt (grad wrt) e := by
  cases e with
  | const c => simp [grad, gradStepG]
  | var x => simp [grad, gradStepG]
  | param p => simp [grad, gradStepG]
  | bin op l r => simp [grad, gradStepG]
  | un op a => simp [grad, gradStepG]
  | linComb cs v => simp only [grad, gradStepG, gradVec_eq_vecD]; exact linCombRule_eq ..
  | vecSum v => simp only [grad, gradStepG]; exact vecSumRule_eq ..
  | exprSum es => simp only [grad, gradStepG, gradList_eq_map]; exact exprSumRule_eq ..
  | dot l r => simp only [grad, gradStepG, gradVec_eq_vecD]; exact dotRule_eq ..
  | l2 v => simp only [grad, gradStepG, gradVec_eq_vecD]; exact l2Rule_eq ..
  | l1 v => simp only [grad, gradStepG, gradVec_eq_vecD]; exact l1Rule_eq ..
  | quad v q => simp only [grad, gradStepG, gradVec_eq_vecD]; exact quadRule_eq ..
  | powSum v k => simp only [grad, gradStepG]; exact powSumRule_eq ..
  | unSum v op => simp only [grad, gradStepG]; exact unSumRule_eq ..
  | matSumV m => simp only [grad, gradStepG]; exact matSumVRule_eq ..
  | matSumE es => simp only [grad, gradStepG, gradList_eq_map]; exact matSumERule_eq ..
  | frob m => simp only [grad, gradStepG]; exact frobRule_eq ..

/-! ### and it is the only function that does -/

section
variable (wrt : Var) (f : Expr → Expr) (hf : ∀ e, f e = gradStepG wrt f e)
include hf

mutual
theorem step_unique : (e : Expr) → f e = grad wrt e
  | .const c => by rw [hf, grad_step]; rfl
  | .var x => by rw [hf, grad_step]; rfl
  | .param p => by rw [hf, grad_step]; rfl
  | .bin op l r => by
    rw [hf, grad_step]; simp only [gradStepG]; rw [step_unique l, step_unique r]
  | .un op a => by
    rw [hf, grad_step]; simp only [gradStepG]; rw [step_unique a]
  | .linComb cs v => by
    rw [hf, grad_step]; simp only [gradStepG]; rw [vec_unique v, gradVec_eq_vecD]
  | .vecSum v => by rw [hf, grad_step]; rfl
  | .exprSum es => by
    rw [hf, grad_step]; simp only [gradStepG]; rw [list_unique es, gradList_eq_map]
  | .dot l r => by
    rw [hf, grad_step]; simp only [gradStepG]; rw [vec_unique l, vec_unique r, gradVec_eq_vecD, gradVec_eq_vecD]
  | .l2 v => by
    rw [hf, grad_step]; simp only [gradStepG]; rw [vec_unique v, gradVec_eq_vecD]
  | .l1 v => by
    rw [hf, grad_step]; simp only [gradStepG]; rw [vec_unique v, gradVec_eq_vecD]
  | .quad v q => by
    rw [hf, grad_step]; simp only [gradStepG]; rw [vec_unique v, gradVec_eq_vecD]
  | .powSum v k => by rw [hf, grad_step]; rfl
  | .unSum v op => by rw [hf, grad_step]; rfl
  | .matSumV m => by rw [hf, grad_step]; rfl
  | .matSumE es => by
    rw [hf, grad_step]; simp only [gradStepG]; rw [list_unique es, gradList_eq_map]
  | .frob m => by rw [hf, grad_step]; rfl
theorem vec_unique : (v : Vec) → vecD f v = gradVec wrt v
  | .vars vv => by
    simp only [vecD, gradVec]
    apply List.map_congr_left
    intro y _
    rw [hf]; rfl
  | .exprs es => by simp only [vecD, gradVec]; exact list_unique es
theorem list_unique : (es : ExprList) → es.toList.map f = gradList wrt es
  | .nil => by simp [gradList, ExprList.toList]
  | .cons e t => by
    simp only [gradList, ExprList.toList, List.map_cons]
    rw [step_unique e, list_unique t]
end

end

end Optyx.Props.GradTie
