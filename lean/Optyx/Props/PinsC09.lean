/-
  Optyx.Props.PinsC09 — transcription anchors of C09 (harness/source_pins.py).
  Each theorem says: the function the hand-written model of C09 was read from has, in the source of this run,
  the fingerprint of the text it was read from.  Rewritten only by `source_pins.py --update` after a reviewed change.
-/
import Optyx.Generated.PinsC09

namespace Optyx.Props.PinsC09
open Optyx.Generated

/-- `solve_scipy` (solvers/scipy_solver.py) -/
theorem pin_scipy_solver_solve_scipy_anchor : pin_scipy_solver_solve_scipy = "aec366bec19bdafe" := rfl

/-- every function the model of C09 transcribes (and no translator covers) is the one it was read from -/
theorem anchors : pin_scipy_solver_solve_scipy = "aec366bec19bdafe" :=
  pin_scipy_solver_solve_scipy_anchor

end Optyx.Props.PinsC09
