/-
  C16 — a problem's variables are exactly those it mentions, in deterministic natural order.

  Model: `Optyx.Py.Api` (`Py/ProblemVars.lean`): `_natural_sort_key` with CPython's tuple comparison
  (`keyLt?`, `none` = TypeError), Python's set of Variables (`dedupByName`) iterated in an arbitrary order
  (`perm`), `sorted` (`sortVars`), `_try_get_single_vector_source` (`svsRun`), `Problem.variables`
  (`problemVariables`: shortcut + general path), `Problem.get_bounds`.
  Only property theorems live here; helper lemmas are in `Optyx/Lemmas/ApiOrder.lean`, `ApiVars.lean`.
-/
import Optyx.Props.SortText
import Optyx.Lemmas.ApiVars
import Optyx.Drive.Api

namespace Optyx.Props.C16
open Optyx Optyx.Py.Api

/-- every `VectorVariable` object the problem refers to -/
def allVVars (obj : Option Expr) (cons : List Expr) : List VVar :=
  (match obj with | some o => vvarsOf o | none => []) ++ cons.flatMap vvarsOf

/-- the key tuple alternates `str`, `int`, `str`, … (even positions strings, odd positions numbers) -/
theorem sortKey_alternating (name : String) (i : Nat) (x : KeyPart) (h : (sortKey name)[i]? = some x) :
    x.isS = decide (i % 2 = 0) := sortKey_kind name i x h

/-- comparing two sort keys never raises `TypeError`, and the comparison is a strict total order on
    names (irreflexive, transitive, any two different names are ordered) -/
theorem sortKey_total_order :
    (∀ a b : String, ∃ r, keyLt? a b = some r) ∧
    (∀ a : String, keyLt? a a = some false) ∧
    (∀ a b c : String, keyLt? a b = some true → keyLt? b c = some true → keyLt? a c = some true) ∧
    (∀ a b : String, a ≠ b → keyLt? a b = some true ∨ keyLt? b a = some true) := by
  refine ⟨fun a b => ⟨_, keyLt?_eq a b⟩, fun a => ?_, fun a b c h1 h2 => ?_, fun a b hne => ?_⟩
  · rw [keyLt?_eq, keyLtT_sto.irrefl]
  · rw [keyLt?_eq] at *
    simp only [Option.some.injEq] at *
    exact keyLtT_sto.trans a b c h1 h2
  · rw [keyLt?_eq, keyLt?_eq]
    simp only [Option.some.injEq]
    exact keyLtT_sto.tri a b hne

/-- the comparison `sorted` uses is a total preorder on Variables whose ties are exactly equal names -/
theorem varLe_total_preorder :
    (∀ a b : Var, (varLe a b || varLe b a) = true) ∧
    (∀ a b c : Var, varLe a b = true → varLe b c = true → varLe a c = true) ∧
    (∀ a b : Var, varLe a b = true → varLe b a = true → a.name = b.name) :=
  ⟨varLe_total, varLe_trans, varLe_antisymm⟩

/-- the shortcut is sound: when the explicit-stack traversal returns a vector, the expression mentions
    exactly that vector's element objects (`Consistent`: an object id denotes one object) -/
theorem singleVectorSource_sound (e : Expr) (hC : Consistent (vvarsOf e)) (v : VVar)
    (h : singleVectorSource e = some v) : ∀ x, x ∈ exprVars e ↔ x ∈ v.vars :=
  (singleVectorSource_sound_in hC e (fun _ hu => hu) v h).1

example : Consistent (vvarsOf (.vecSum ⟨"x", 3, [⟨"x[0]", 1⟩]⟩)) := by
  intro u hu w hw _
  simp only [vvarsOf, List.mem_cons, List.not_mem_nil, or_false] at hu hw
  rw [hu, hw]

/-- the fuel handed to the traversal (the size of the expression) is always enough -/
theorem singleVectorSource_fuel (e : Expr) : svsRun e.size [e] none ≠ .outOfFuel :=
  svsRun_fuel e.size [e] none (by simp [stackSize])

/-- `sorted` gives the same list for every arrival order of a set with one object per name -/
theorem sort_perm_invariant (l₁ l₂ : List Var) (hp : l₁.Perm l₂) (hn : (l₁.map (·.name)).Nodup) :
    sortVars l₁ = sortVars l₂ := sortVars_perm_invariant hp hn

/-- what the general path returns, for any iteration order of the set: one entry per name, exactly
    the names that occur, each entry one of the occurring objects, sorted by the natural key -/
theorem generalVariables_spec (perm : List Var → List Var) (hperm : ∀ l, (perm l).Perm l)
    (obj : Option Expr) (cons : List Expr) :
    ((generalVariables perm obj cons).map (·.name)).Nodup ∧
    (∀ n, n ∈ (generalVariables perm obj cons).map (·.name) ↔ n ∈ (allOccurrences obj cons).map (·.name)) ∧
    (∀ v ∈ generalVariables perm obj cons, v ∈ allOccurrences obj cons) ∧
    (generalVariables perm obj cons).Pairwise (fun a b => varLe a b = true) := by
  have hp : (generalVariables perm obj cons).Perm (dedupByName (allOccurrences obj cons)) :=
    (sortVars_perm _).trans (hperm _)
  refine ⟨?_, ?_, ?_, sortVars_sorted _⟩
  · exact (hp.map _).nodup_iff.mpr (dedupByName_names_nodup _)
  · intro n
    rw [(hp.map _).mem_iff]
    exact dedupByName_name_mem _ n
  · intro v hv
    exact dedupByName_sub _ v (hp.mem_iff.mp hv)

/-- the order does not depend on the iteration order of the set (hash seed, construction order) -/
theorem problemVariables_perm_invariant (p₁ p₂ : List Var → List Var)
    (h₁ : ∀ l, (p₁ l).Perm l) (h₂ : ∀ l, (p₂ l).Perm l) (obj : Option Expr) (cons : List Expr) :
    problemVariables p₁ obj cons = problemVariables p₂ obj cons := by
  unfold problemVariables
  cases shortcutSource obj cons with
  | some src => rfl
  | none =>
    simp only [generalVariables]
    apply sortVars_perm_invariant ((h₁ _).trans (h₂ _).symm)
    exact ((h₁ _).map _).nodup_iff.mpr (dedupByName_names_nodup _)

theorem shortcutSource_some {obj : Option Expr} {cons : List Expr} {src : VVar}
    (h : shortcutSource obj cons = some src) :
    ∃ o, obj = some o ∧ singleVectorSource o = some src ∧
      ∀ c ∈ cons, ∃ s, singleVectorSource c = some s ∧ s.oid = src.oid := by
  unfold shortcutSource at h
  cases obj with
  | none => cases h
  | some o =>
    simp only [] at h
    cases ho : singleVectorSource o with
    | none => rw [ho] at h; cases h
    | some s0 =>
      rw [ho] at h
      simp only [] at h
      split at h
      · rename_i hall
        cases h
        refine ⟨o, rfl, ho, fun c hc => ?_⟩
        have := List.all_eq_true.mp hall c hc
        cases hs : singleVectorSource c with
        | none => rw [hs] at this; cases this
        | some s => rw [hs] at this; exact ⟨s, rfl, by simpa using this⟩
      · cases h

/-- when the single-vector shortcut applies it returns what the general path returns
    (the vector's elements have distinct names; object ids are consistent across the problem) -/
theorem shortcut_eq_general (perm : List Var → List Var) (hperm : ∀ l, (perm l).Perm l)
    (obj : Option Expr) (cons : List Expr) (hC : Consistent (allVVars obj cons)) (src : VVar)
    (hs : shortcutSource obj cons = some src) (hN : (src.vars.map (·.name)).Nodup) :
    sortVars src.vars = generalVariables perm obj cons := by
  obtain ⟨o, rfl, ho, hc⟩ := shortcutSource_some hs
  have hin_o : ∀ u ∈ vvarsOf o, u ∈ allVVars (some o) cons := fun u hu => by
    simp only [allVVars, List.mem_append]; exact Or.inl hu
  obtain ⟨hxo, hsrc⟩ := singleVectorSource_sound_in hC o hin_o src ho
  have hocc : ∀ x, x ∈ allOccurrences (some o) cons ↔ x ∈ src.vars := by
    intro x
    simp only [allOccurrences, List.mem_append, List.mem_flatMap]
    constructor
    · rintro (h | ⟨c, hcm, hx⟩)
      · exact (hxo x).mp h
      · obtain ⟨s, hss, hoid⟩ := hc c hcm
        have hin_c : ∀ u ∈ vvarsOf c, u ∈ allVVars (some o) cons := fun u hu => by
          simp only [allVVars, List.mem_append, List.mem_flatMap]; exact Or.inr ⟨c, hcm, hu⟩
        obtain ⟨hxc, hs_in⟩ := singleVectorSource_sound_in hC c hin_c s hss
        have : s.vars = src.vars := hC s hs_in src hsrc hoid
        rw [← this]; exact (hxc x).mp hx
    · intro h; exact Or.inl ((hxo x).mpr h)
  have hperm' : (dedupByName (allOccurrences (some o) cons)).Perm src.vars := by
    apply (List.perm_ext_iff_of_nodup (nodup_of_names_nodup (dedupByName_names_nodup _))
      (nodup_of_names_nodup hN)).mpr
    intro x
    constructor
    · intro hx; exact (hocc x).mp (dedupByName_sub _ x hx)
    · intro hx
      have hxo' := (hocc x).mpr hx
      have : x.name ∈ (dedupByName (allOccurrences (some o) cons)).map (·.name) :=
        (dedupByName_name_mem _ _).mpr (List.mem_map.mpr ⟨x, hxo', rfl⟩)
      obtain ⟨y, hy, hyn⟩ := List.mem_map.mp this
      have hy' : y ∈ src.vars := (hocc y).mp (dedupByName_sub _ y hy)
      have : y = x := nodup_names_inj hN hy' hx hyn
      rw [← this]; exact hy
  simp only [generalVariables]
  exact sortVars_perm_invariant (hperm'.symm.trans (hperm _).symm) hN

example : shortcutSource (some (.vecSum ⟨"x", 3, [⟨"x[1]", 2⟩, ⟨"x[0]", 1⟩]⟩)) [] =
    some ⟨"x", 3, [⟨"x[1]", 2⟩, ⟨"x[0]", 1⟩]⟩ := rfl

/-- `Problem.variables`: one entry per name, exactly the names occurring in objective and constraints,
    each entry one of the occurring objects, in natural order — whichever path computed it -/
theorem problemVariables_spec (perm : List Var → List Var) (hperm : ∀ l, (perm l).Perm l)
    (obj : Option Expr) (cons : List Expr) (hC : Consistent (allVVars obj cons))
    (hN : ∀ src, shortcutSource obj cons = some src → (src.vars.map (·.name)).Nodup) :
    problemVariables perm obj cons = generalVariables perm obj cons ∧
    ((problemVariables perm obj cons).map (·.name)).Nodup ∧
    (∀ n, n ∈ (problemVariables perm obj cons).map (·.name) ↔ n ∈ (allOccurrences obj cons).map (·.name)) ∧
    (∀ v ∈ problemVariables perm obj cons, v ∈ allOccurrences obj cons) ∧
    (problemVariables perm obj cons).Pairwise (fun a b => varLe a b = true) := by
  have heq : problemVariables perm obj cons = generalVariables perm obj cons := by
    unfold problemVariables
    cases hs : shortcutSource obj cons with
    | none => rfl
    | some src => exact shortcut_eq_general perm hperm obj cons hC src hs (hN src hs)
  rw [heq]
  exact ⟨rfl, generalVariables_spec perm hperm obj cons⟩

/-- `get_bounds()[i]` are the bounds of `variables[i]`, and — one object per name — the bounds
    declared for that name wherever it occurs -/
theorem get_bounds_spec {β : Type} (bnd : Nat → β) (perm : List Var → List Var)
    (hperm : ∀ l, (perm l).Perm l) (obj : Option Expr) (cons : List Expr)
    (hC : Consistent (allVVars obj cons))
    (hN : ∀ src, shortcutSource obj cons = some src → (src.vars.map (·.name)).Nodup)
    (hname : ∀ a ∈ allOccurrences obj cons, ∀ b ∈ allOccurrences obj cons, a.name = b.name → a.oid = b.oid) :
    getBounds bnd perm obj cons = (problemVariables perm obj cons).map (fun v => bnd v.oid) ∧
    (getBounds bnd perm obj cons).length = (problemVariables perm obj cons).length ∧
    ∀ v ∈ problemVariables perm obj cons, ∀ w ∈ allOccurrences obj cons,
      w.name = v.name → bnd w.oid = bnd v.oid := by
  refine ⟨rfl, by simp [getBounds], fun v hv w hw hn => ?_⟩
  obtain ⟨_, _, _, hsub, _⟩ := problemVariables_spec perm hperm obj cons hC hN
  rw [hname w hw v (hsub v hv) hn]

end Optyx.Props.C16
