/-
  Optyx.Props.PinsC15 — transcription anchors of C15 (harness/source_pins.py).
  Each theorem says: the function the hand-written model of C15 was read from has, in the source of this run,
  the fingerprint of the text it was read from.  Rewritten only by `source_pins.py --update` after a reviewed change.
-/
import Optyx.Generated.PinsC15

namespace Optyx.Props.PinsC15
open Optyx.Generated.PinsC15

/-- `gradient` (core/autodiff.py) -/
theorem pin_autodiff_gradient_anchor : pin_autodiff_gradient = "fee553c339472aff" := rfl

/-- every function the model of C15 transcribes (and no translator covers) is the one it was read from -/
theorem anchors : pin_autodiff_gradient = "fee553c339472aff" :=
  pin_autodiff_gradient_anchor

end Optyx.Props.PinsC15
