/-
  Optyx.Props.PinsC15 — transcription anchors of C15 (harness/source_pins.py).
  Each theorem says: the function the hand-written model of C15 was read from has, in the source of this run,
  the fingerprint of the text it was read from.  Rewritten only by `source_pins.py --update` after a reviewed change.
-/
import Optyx.Generated.PinsC15

namespace Optyx.Props.PinsC15
open Optyx.Generated.PinsC15

/-- `gradient` (core/autodiff.py) -/
theorem pin_autodiff_gradient_anchor : pin_autodiff_gradient = "334729e5c1cbe697" := rfl
/-- `compile_expression` (core/compiler.py) -/
theorem pin_compiler_compile_expression_anchor : pin_compiler_compile_expression = "db0179ead8cd3aa4" := rfl
/-- `_param_value` (core/compiler.py) -/
theorem pin_compiler_param_value_anchor : pin_compiler_param_value = "79e7de7cdae81265" := rfl
/-- `compile_to_dict_function` (core/compiler.py) -/
theorem pin_compiler_compile_to_dict_function_anchor : pin_compiler_compile_to_dict_function = "9c1b94dcff42b825" := rfl
/-- `CompiledExpression` (core/compiler.py) -/
theorem pin_compiler_CompiledExpression_anchor : pin_compiler_CompiledExpression = "46e07aadf48eb02a" := rfl

/-- every function the model of C15 transcribes (and no translator covers) is the one it was read from -/
theorem anchors : pin_autodiff_gradient = "334729e5c1cbe697" ∧ pin_compiler_compile_expression = "db0179ead8cd3aa4" ∧ pin_compiler_param_value = "79e7de7cdae81265" ∧ pin_compiler_compile_to_dict_function = "9c1b94dcff42b825" ∧ pin_compiler_CompiledExpression = "46e07aadf48eb02a" :=
  ⟨pin_autodiff_gradient_anchor, pin_compiler_compile_expression_anchor, pin_compiler_param_value_anchor, pin_compiler_compile_to_dict_function_anchor, pin_compiler_CompiledExpression_anchor⟩

end Optyx.Props.PinsC15
