/-
  Optyx.Props.PinsC15 — transcription anchors of C15 (harness/source_pins.py).
  Each theorem says: the function the hand-written model of C15 was read from has, in the source of this run,
  the fingerprint of the text it was read from.  Rewritten only by `source_pins.py --update` after a reviewed change.
-/
import Optyx.Generated.PinsC15

namespace Optyx.Props.PinsC15
open Optyx.Generated

/-- `_gradient_iterative` (core/autodiff.py) -/
theorem pin_autodiff_gradient_iterative_anchor : pin_autodiff_gradient_iterative = "e37eccba19d64802" := rfl
/-- `_estimate_tree_depth` (core/autodiff.py) -/
theorem pin_autodiff_estimate_tree_depth_anchor : pin_autodiff_estimate_tree_depth = "69b1f2914a61eead" := rfl
/-- `_get_variables_iterative` (core/expressions.py) -/
theorem pin_expressions_get_variables_iterative_anchor : pin_expressions_get_variables_iterative = "db2767e8b07f1c3e" := rfl
/-- `_estimate_tree_depth` (core/expressions.py) -/
theorem pin_expressions_estimate_tree_depth_anchor : pin_expressions_estimate_tree_depth = "a7caf48f3888a60a" := rfl

/-- every function the model of C15 transcribes (and no translator covers) is the one it was read from -/
theorem anchors : pin_autodiff_gradient_iterative = "e37eccba19d64802" ∧ pin_autodiff_estimate_tree_depth = "69b1f2914a61eead" ∧ pin_expressions_get_variables_iterative = "db2767e8b07f1c3e" ∧ pin_expressions_estimate_tree_depth = "a7caf48f3888a60a" :=
  ⟨pin_autodiff_gradient_iterative_anchor, pin_autodiff_estimate_tree_depth_anchor, pin_expressions_get_variables_iterative_anchor, pin_expressions_estimate_tree_depth_anchor⟩

end Optyx.Props.PinsC15
