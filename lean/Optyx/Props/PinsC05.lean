/-
  Optyx.Props.PinsC05 — transcription anchors of C05 (harness/source_pins.py).
  Each theorem says: the function the hand-written model of C05 was read from has, in the source of this run,
  the fingerprint of the text it was read from.  Rewritten only by `source_pins.py --update` after a reviewed change.
-/
import Optyx.Generated.PinsC05

namespace Optyx.Props.PinsC05
open Optyx.Generated.PinsC05


/-- every function the model of C05 transcribes (and no translator covers) is the one it was read from -/
theorem anchors : True := trivial

end Optyx.Props.PinsC05
