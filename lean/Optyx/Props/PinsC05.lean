/-
  Optyx.Props.PinsC05 — transcription anchors of C05 (harness/source_pins.py).
  Each theorem says: the function the hand-written model of C05 was read from has, in the source of this run,
  the fingerprint of the text it was read from.  Rewritten only by `source_pins.py --update` after a reviewed change.
-/
import Optyx.Generated.PinsC05

namespace Optyx.Props.PinsC05
open Optyx.Generated.PinsC05

/-- `extract_all_linear_coefficients` (analysis.py) -/
theorem pin_analysis_extract_all_linear_coefficients_anchor : pin_analysis_extract_all_linear_coefficients = "12263a09e6ffedff" := rfl
/-- `_try_extract_fast_binop` (analysis.py) -/
theorem pin_analysis_try_extract_fast_binop_anchor : pin_analysis_try_extract_fast_binop = "9a441977d7cc69cd" := rfl
/-- `_vector_is_aligned` (analysis.py) -/
theorem pin_analysis_vector_is_aligned_anchor : pin_analysis_vector_is_aligned = "b6d6839e542cf6b0" := rfl
/-- `extract_linear_coefficient` (analysis.py) -/
theorem pin_analysis_extract_linear_coefficient_anchor : pin_analysis_extract_linear_coefficient = "8356a37b6239dea1" := rfl
/-- `extract_constant_term` (analysis.py) -/
theorem pin_analysis_extract_constant_term_anchor : pin_analysis_extract_constant_term = "56af33ef128b1672" := rfl

/-- every function the model of C05 transcribes (and no translator covers) is the one it was read from -/
theorem anchors : pin_analysis_extract_all_linear_coefficients = "12263a09e6ffedff" ∧ pin_analysis_try_extract_fast_binop = "9a441977d7cc69cd" ∧ pin_analysis_vector_is_aligned = "b6d6839e542cf6b0" ∧ pin_analysis_extract_linear_coefficient = "8356a37b6239dea1" ∧ pin_analysis_extract_constant_term = "56af33ef128b1672" :=
  ⟨pin_analysis_extract_all_linear_coefficients_anchor, pin_analysis_try_extract_fast_binop_anchor, pin_analysis_vector_is_aligned_anchor, pin_analysis_extract_linear_coefficient_anchor, pin_analysis_extract_constant_term_anchor⟩

end Optyx.Props.PinsC05
