/-
  Optyx.Props.PinsC05 — transcription anchors of C05 (harness/source_pins.py).
  Each theorem says: the function the hand-written model of C05 was read from has, in the source of this run,
  the fingerprint of the text it was read from.  Rewritten only by `source_pins.py --update` after a reviewed change.
-/
import Optyx.Generated.PinsC05

namespace Optyx.Props.PinsC05
open Optyx.Generated.PinsC05

/-- `extract_linear_coefficient` (analysis.py) -/
theorem pin_analysis_extract_linear_coefficient_anchor : pin_analysis_extract_linear_coefficient = "8356a37b6239dea1" := rfl
/-- `extract_constant_term` (analysis.py) -/
theorem pin_analysis_extract_constant_term_anchor : pin_analysis_extract_constant_term = "56af33ef128b1672" := rfl

/-- every function the model of C05 transcribes (and no translator covers) is the one it was read from -/
theorem anchors : pin_analysis_extract_linear_coefficient = "8356a37b6239dea1" ∧ pin_analysis_extract_constant_term = "56af33ef128b1672" :=
  ⟨pin_analysis_extract_linear_coefficient_anchor, pin_analysis_extract_constant_term_anchor⟩

end Optyx.Props.PinsC05
