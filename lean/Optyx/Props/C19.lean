/-
  C19 — derivative callables stay finite at singular points: undefined entries come back as 0,
  unbounded ones as ±1e16, identically on the general and the vectorised paths; regular entries of
  the same array are unchanged.

  Stated over `SV ℝ` (`Optyx/Py/Sanitize.lean`): NaN, ±∞, ±0 and the non-zero reals with the IEEE-754 /
  C99 rules of every operation optyx uses.  The same definitions run over `SV Float` in the driver and
  are compared with NumPy at every singular point by `harness/props/c19.py`.
  Out of scope (stated): overflow of a *finite* intermediate (`exp(1000)`) — `SV ℝ` has none.
-/
import Optyx.Lemmas.JacSVPaths
import Optyx.Drive.Jac
import Optyx.Props.Closures

namespace Optyx.Props.C19
open Optyx Optyx.Py Optyx.Py.Jac NumAlg Optyx.Generated

/-- **`_sanitize_derivatives`**: the returned array has the same shape and is, entry by entry,
    NaN ↦ 0.0, +∞ ↦ `_LARGE_GRADIENT`, −∞ ↦ −`_LARGE_GRADIENT`, every finite value (±0 included) unchanged —
    whether or not the all-finite short-cut fired; `_LARGE_GRADIENT` is the constant read from the
    source today, `1e16`. -/
theorem sanitize_spec (arr : List R) :
    sanitize arr = arr.map DerivAlg.nanToNum ∧
    (DerivAlg.nanToNum (SV.nan : R) = SV.zero false) ∧
    (DerivAlg.nanToNum (SV.inf false : R) = SV.fin ((10000000000000000 : ℚ) : ℝ)) ∧
    (DerivAlg.nanToNum (SV.inf true : R) = SV.fin (-((10000000000000000 : ℚ) : ℝ))) ∧
    (∀ s, DerivAlg.nanToNum (SV.zero s : R) = SV.zero s) ∧
    (∀ a, DerivAlg.nanToNum (SV.fin a : R) = SV.fin a) :=
  ⟨sanitize_eq_map arr, nanToNum_table⟩

/-- every entry of a sanitised array (1-D and 2-D) is finite -/
theorem sanitize_finite (arr : List R) (m : List (List R)) :
    (∀ a ∈ sanitize arr, DerivAlg.isFinite a = true) ∧
    (∀ r ∈ sanitize2 m, ∀ a ∈ r, DerivAlg.isFinite a = true) :=
  ⟨allFin_sanitize arr, allFin2_sanitize2 m⟩

/-- **Every derivative callable returns finite entries at every finite point** — all closures
    `compile_gradient`, `compile_jacobian` and `compile_hessian` can return (they either end in
    `_sanitize_derivatives`, or are built only from operations that are finite on finite reals:
    constants, `2·x`, `c·x`, `cos`, `−sin`, `exp`, `sinh`, `cosh`, `1 − tanh²`, `sign`, `−cos`), for
    every parameter store. -/
theorem derivative_outputs_finite (x : List R) (σ : Nat → R)
    (hx : ∀ a ∈ x, DerivAlg.isFinite a = true) :
    (∀ g : GradClo, ∀ a ∈ g.run x σ, DerivAlg.isFinite a = true) ∧
    (∀ j : JacClo, ∀ r ∈ j.run x σ, ∀ a ∈ r, DerivAlg.isFinite a = true) ∧
    (∀ h : HessClo, ∀ r ∈ h.run x σ, ∀ a ∈ r, DerivAlg.isFinite a = true) :=
  ⟨fun g => gradClo_finite g x σ hx, fun j => jacClo_finite j x σ hx, fun h => hessClo_finite h x σ hx⟩

/-- **Vectorised and general path agree on the special values.**  At every finite input value `x`
    (±0, negative, positive — singular points included):
    * for each of the ten `VectorUnarySum` operators the vectorised closure body (`np.cos(x)`, `-np.sin(x)`,
      `1/x`, `0.5/np.sqrt(x)`, `1 - np.tanh(x)**2`, `1/np.cos(x)**2`, `np.sign(x)`, …) and the expression the
      general path compiles (`cos x`, `(-1)*sin x`, `1/x`, `1/(2*sqrt x)`, …, `x/|x|`) are the same special
      value after sanitising, and *before* sanitising for every operator except `abs`
      (`np.sign(±0) = 0` against `0/0 = NaN`, both returned as 0);
    * for `VectorPowerSum` and every exponent `k` the body `k * x**(k-1)` (used for k = 1, 2 too on the
      sparse path) is the special value of the entry the general path compiles (`1`, `2*x`, `k * x**(k-1)`). -/
theorem paths_agree_on_specials (ρ : String → R) (σ : Nat → R) (w : Var) (hx : Input (ρ w.name)) :
    (∀ op : VOp,
      DerivAlg.nanToNum (vecUnBody op (ρ w.name)) =
          DerivAlg.nanToNum (denote ρ σ (unSumJacRow op (.var w))) ∧
      (op ≠ .abs → vecUnBody op (ρ w.name) = denote ρ σ (unSumJacRow op (.var w))) ∧
      denote ρ σ (unSumDeriv op (.var w)) = denote ρ σ (unSumJacRow op (.var w))) ∧
    (∀ k : Rat, powBody k (ρ w.name) = denote ρ σ (powRowEntry k w)) := by
  refine ⟨fun op => ?_, fun k => power_paths_agree σ ρ k w hx⟩
  obtain ⟨h1, h2⟩ := unary_paths_agree σ ρ op w hx
  exact ⟨h1, h2, denote_unSumDeriv_eq_jac ρ σ op w w rfl⟩

/-- **Regular entries are unchanged**: an entry that is finite before sanitising is returned as it is,
    whatever else is in the array. -/
theorem regular_unchanged (arr : List R) (i : Nat) (a : R) (h : arr[i]? = some a)
    (hfin : DerivAlg.isFinite a = true) : (sanitize arr)[i]? = some a := by
  rw [sanitize_eq_map]
  simp [h, nanToNum_of_fin hfin]

/-! ### non-vacuity / the singular values themselves -/

/-- `1/x` at +0 and −0, `0.5/sqrt(x)` at −0.0, `x/|x|` at 0 -/
example : NumAlg.div (NumAlg.ofRat 1 : R) (SV.zero false) = SV.inf false ∧
    NumAlg.div (NumAlg.ofRat 1 : R) (SV.zero true) = SV.inf true ∧
    NumAlg.div (SV.zero false : R) (NumAlg.unop .abs (SV.zero false)) = SV.nan := by
  rw [ofRat_of_ne (by norm_num : (1:ℚ) ≠ 0)]
  refine ⟨?_, ?_, rfl⟩
  · show SV.div (SV.fin _) (SV.zero false) = _
    simp [SV.div, isNeg_real]
  · show SV.div (SV.fin _) (SV.zero true) = _
    simp [SV.div, isNeg_real]

example : Input (SV.zero true : R) ∧ Input (SV.fin (-2) : R) := ⟨trivial, by simp [Input]⟩

end Optyx.Props.C19
