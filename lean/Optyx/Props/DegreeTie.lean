/-
  Optyx.Props.DegreeTie — the hand-written recursive model `Py.degree` / `Py.vecDegree` is a
  fixed point of the step functionals that harness/py2lean.py regenerates from the *current*
  bodies of `_compute_degree_impl` and `_vector_degree` (analysis.py) on every run.

  A change of any branch of those two functions changes `Generated.degreeStepG` /
  `Generated.vectorDegreeG`, and these equations are re-checked against it; the soundness theorems of
  C04 are about `Py.degree`, hence — through these equations — about what the source says now.
-/
import Optyx.Py.Degree
import Optyx.Py.StepSupport
import Optyx.Generated.DegreeStep

namespace Optyx.Props.DegreeTie
open Optyx Optyx.Py Optyx.Generated

theorem maxDegList_eq_maxLoop : (es : ExprList) → (acc : Nat) →
    maxDegList es acc = maxLoop degree es.toList acc
  | .nil, acc => by simp [maxDegList, maxLoop, ExprList.toList]
  | .cons e t, acc => by
    simp only [maxDegList, maxLoop, ExprList.toList]
    cases degree e with
    | none => rfl
    | some d => exact maxDegList_eq_maxLoop t (max acc d)

/-- `_vector_degree` as the source has it now -/
theorem vecDegree_step (v : Vec) : vecDegree v = vectorDegreeG degree v := by
  cases v with
  | vars vv => simp [vecDegree, vectorDegreeG]
  | exprs es => simp [vecDegree, vectorDegreeG, maxDegList_eq_maxLoop]

/-- `_compute_degree_impl` as the source has it now: every branch, in the source's order of tests -/
theorem degree_step (e : Expr) : degree e = degreeStepG degree vecDegree e := by
  cases e with
  | bin op l r =>
    cases op <;> simp only [degree, degreeStepG]
    all_goals first
      | rfl
      | (cases degree l <;> cases degree r <;> simp <;> omega)
      | (cases r <;> simp [expNat, isConstNode] <;> (try (rename_i c; cases c <;> simp [cstNat])) <;>
          (try (cases ratNat _ <;> simp)) <;> (try (cases degree l <;> simp)))
  | un op a => cases op <;> simp [degree, degreeStepG]
  | linComb cs v => cases v <;> simp [degree, degreeStepG, vecDegree, maxDegList_eq_maxLoop]
  | dot l r => simp only [degree, degreeStepG]; cases vecDegree l <;> cases vecDegree r <;> rfl
  | quad v q => simp only [degree, degreeStepG]; cases vecDegree v <;> rfl
  | powSum v k => simp only [degree, degreeStepG]; cases ratNat k <;> rfl
  | _ => simp [degree, degreeStepG]

/-! ### the explicit-stack traversal `_compute_degree_iterative`

`Py.step` (one iteration of the `while stack:` loop; `degreeIter_eq` in C04 relates the machine to the recursion)
is the function translated from the loop body of the current source: every `continue`, every push in the source's
order, every `result_stack.pop()` with its IndexError, the three phases, the early exits of `**` and `/`. -/

theorem step_eq (f : Frame) (stk : List Frame) (rs : List Deg) :
    step f stk rs = degIterStepG degree f stk rs := by
  unfold step degIterStepG
  cases hn : f.node with
  | bin op l r =>
    simp only []
    split
    · rfl
    · split
      · cases rs with
        | nil => rfl
        | cons x rs' =>
          simp only []
          cases op <;> simp <;>
            (try (cases r <;> simp [expNat, isConstNode] <;> (try (rename_i c; cases c <;> simp [cstNat])) <;>
                    (try (cases ratNat _ <;> simp)) <;> (try (cases x <;> simp)))) <;>
            (try (cases x <;> simp))
      · cases rs with
        | nil => rfl
        | cons x rs' =>
          simp only []
          cases x <;> cases f.leftDeg <;> simp <;> (try (cases op <;> simp))
  | un op a => cases op <;> simp <;> (try (split <;> (try rfl) <;> (cases rs <;> rfl)))
  | _ => simp

/-- the frame around the loop: initial stack `[(expr, 0, None, None)]`, empty result stack, and the read-out
    `result_stack[-1] if result_stack else None` — what `Py.degreeIter` / `Py.run` transcribe -/
theorem degIterFrame_text : degIterFrame =
    ["stack: list[tuple[Expression, int, Optional[int], Optional[int]]] = [(expr, 0, None, None)]",
     "result_stack: list[Optional[int]] = []", "return result_stack[-1] if result_stack else None"] := rfl

/-! ### Uniqueness: the source's equations have exactly one solution

Any function `f` that satisfies the equations the translator reads off the source
(`f e = degreeStepG f (vectorDegreeG f) e` for every `e`: "`_compute_degree_impl` calls itself on
children and `_vector_degree` on vector operands") is `Py.degree`.  So a theorem about `Py.degree` is a
theorem about *the* function those Python bodies define on the expression grammar; the hand-written
`Py.degree` is no longer part of the trusted reading of the code, only the translator is. -/

section
variable (f : Expr → Deg) (hf : ∀ e, f e = degreeStepG f (vectorDegreeG f) e)
include hf

mutual
theorem step_unique : (e : Expr) → f e = degree e
  | .const c => by rw [hf, degree_step]; rfl
  | .var x => by rw [hf, degree_step]; rfl
  | .param p => by rw [hf, degree_step]; rfl
  | .bin op l r => by
    rw [hf, degree_step]; simp only [degreeStepG]; rw [step_unique l, step_unique r]
  | .un op a => by
    rw [hf, degree_step]; simp only [degreeStepG]; rw [step_unique a]
  | .linComb cs v => by
    rw [hf, degree_step]; simp only [degreeStepG]
    cases v with
    | vars vv => rfl
    | exprs es => simp only []; rw [loop_unique es 0, maxDegList_eq_maxLoop]
  | .vecSum v => by rw [hf, degree_step]; rfl
  | .exprSum es => by rw [hf, degree_step]; rfl
  | .dot l r => by
    rw [hf, degree_step]; simp only [degreeStepG]; rw [vec_unique l, vec_unique r]
  | .l2 v => by rw [hf, degree_step]; rfl
  | .l1 v => by rw [hf, degree_step]; rfl
  | .quad v q => by
    rw [hf, degree_step]; simp only [degreeStepG]; rw [vec_unique v]
  | .powSum v k => by rw [hf, degree_step]; rfl
  | .unSum v op => by rw [hf, degree_step]; rfl
  | .matSumV m => by rw [hf, degree_step]; rfl
  | .matSumE es => by rw [hf, degree_step]; rfl
  | .frob m => by rw [hf, degree_step]; rfl
theorem vec_unique : (v : Vec) → vectorDegreeG f v = vecDegree v
  | .vars vv => by simp [vectorDegreeG, vecDegree]
  | .exprs es => by simp only [vectorDegreeG, vecDegree]; rw [loop_unique es 0]
theorem loop_unique : (es : ExprList) → (acc : Nat) → maxLoop f es.toList acc = maxDegList es acc
  | .nil, acc => by simp [maxDegList, maxLoop, ExprList.toList]
  | .cons e t, acc => by
    simp only [maxDegList, maxLoop, ExprList.toList]
    rw [step_unique e]
    cases degree e with
    | none => rfl
    | some d => exact loop_unique t (max acc d)
end

end

example : ∀ e, degree e = degreeStepG degree (vectorDegreeG degree) e := fun e => by
  rw [degree_step e]; congr 1; funext v; exact vecDegree_step v

end Optyx.Props.DegreeTie
