/-
  Optyx.Props.PinsC12 — transcription anchors of C12 (harness/source_pins.py).
  Each theorem says: the function the hand-written model of C12 was read from has, in the source of this run,
  the fingerprint of the text it was read from.  Rewritten only by `source_pins.py --update` after a reviewed change.
-/
import Optyx.Generated.PinsC12

namespace Optyx.Props.PinsC12
open Optyx.Generated

/-- `Parameter` (core/parameters.py) -/
theorem pin_parameters_Parameter_anchor : pin_parameters_Parameter = "261081dc3f70504f" := rfl
/-- `_as_parameter_value` (core/parameters.py) -/
theorem pin_parameters_as_parameter_value_anchor : pin_parameters_as_parameter_value = "2f4e7c7bf163c462" := rfl

/-- every function the model of C12 transcribes (and no translator covers) is the one it was read from -/
theorem anchors : pin_parameters_Parameter = "261081dc3f70504f" ∧ pin_parameters_as_parameter_value = "2f4e7c7bf163c462" :=
  ⟨pin_parameters_Parameter_anchor, pin_parameters_as_parameter_value_anchor⟩

end Optyx.Props.PinsC12
