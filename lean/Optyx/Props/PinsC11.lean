/-
  Optyx.Props.PinsC11 — transcription anchors of C11 (harness/source_pins.py).
  Each theorem says: the function the hand-written model of C11 was read from has, in the source of this run,
  the fingerprint of the text it was read from.  Rewritten only by `source_pins.py --update` after a reviewed change.
-/
import Optyx.Generated.PinsC11

namespace Optyx.Props.PinsC11
open Optyx.Generated.PinsC11

/-- `VectorVariable` (core/vectors.py) -/
theorem pin_vectors_VectorVariable_anchor : pin_vectors_VectorVariable = "fe9f27f02e8adbf0" := rfl
/-- `MatrixVariable` (core/matrices.py) -/
theorem pin_matrices_MatrixVariable_anchor : pin_matrices_MatrixVariable = "055844f997bb4b4e" := rfl

/-- every function the model of C11 transcribes (and no translator covers) is the one it was read from -/
theorem anchors : pin_vectors_VectorVariable = "fe9f27f02e8adbf0" ∧ pin_matrices_MatrixVariable = "055844f997bb4b4e" :=
  ⟨pin_vectors_VectorVariable_anchor, pin_matrices_MatrixVariable_anchor⟩

end Optyx.Props.PinsC11
