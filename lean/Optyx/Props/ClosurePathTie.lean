/-
  Optyx.Props.ClosurePathTie — which closure `compile_gradient`, its two vectorised helpers, `compile_jacobian` and
  `compile_hessian` return under which condition: the closure the model selects (`Py.compileGradient`, `compilePowerGradient`,
  `compileUnaryGradient`, `compileJacobian`, `compileHessian`; C03 / C17 / C19 are about what those closures compute) has the
  NAME that the dispatch skeleton translated from the source on every run returns (`Generated/ClosurePaths.lean`,
  harness/py2lean_dispatch.py).  A new fast path, a re-ordered test or a changed condition changes the translated decision
  function and these equations are re-checked against it.
-/
import Optyx.Py.Jacobian
import Optyx.Generated.ClosurePaths

namespace Optyx.Props.ClosurePathTie
open Optyx Optyx.Py Optyx.Py.Jac Optyx.Generated

/-- class of `expr` as the dispatch tests it -/
def kindOf : Expr → String
  | .powSum _ _ => "powSum"
  | .unSum _ _ => "unSum"
  | _ => "other"

/-- `_compile_vectorized_power_gradient` -/
theorem powerGradient_path (v : VVar) (k : Rat) (V : List Var) (idx : List Nat) (h : indicesOf V v.vars = some idx)
    (kind op : String) (m : Nat) (ac sc : Bool) :
    (compilePowerGradient v k V).map GradClo.name
      = .ok (powerGradientPathG kind k op (isFull idx V.length) m ac sc) := by
  unfold compilePowerGradient powerGradientPathG
  simp only [h]
  cases isFull idx V.length <;> simp [Except.map, GradClo.name]
  by_cases h1 : k = 1
  · simp [h1, GradClo.name]
  · by_cases h2 : k = 2 <;> simp [h1, h2, GradClo.name]

/-- `_compile_vectorized_unary_gradient`: the ten operators the constructor of `VectorUnarySum` accepts all have a branch -/
theorem unaryGradient_path (v : VVar) (op : VOp) (V : List Var) (idx : List Nat) (h : indicesOf V v.vars = some idx)
    (kind : String) (k : Rat) (m : Nat) (ac sc : Bool) :
    (compileUnaryGradient v op V).map GradClo.name
      = .ok (unaryGradientPathG kind k (vopName op) (isFull idx V.length) m ac sc) := by
  unfold compileUnaryGradient unaryGradientPathG
  simp only [h]
  cases isFull idx V.length <;> cases op <;> simp [Except.map, GradClo.name, vopName] <;> decide

/-- `compile_gradient`: delegation for the two vectorised sums, `symbolic_gradient` otherwise -/
theorem compileGradient_path (e : Expr) (V : List Var) (c : GradClo) (h : compileGradient e V = .ok c)
    (k : Rat) (op : String) (f : Bool) (m : Nat) (ac sc : Bool) :
    (compileGradientPathG (kindOf e) k op f m ac sc = "->_compile_vectorized_power_gradient"
        ∧ ∃ v kk, e = .powSum v kk ∧ compilePowerGradient v kk V = .ok c)
    ∨ (compileGradientPathG (kindOf e) k op f m ac sc = "->_compile_vectorized_unary_gradient"
        ∧ ∃ v o, e = .unSum v o ∧ compileUnaryGradient v o V = .ok c)
    ∨ (compileGradientPathG (kindOf e) k op f m ac sc = "symbolic_gradient" ∧ c.name = "symbolic_gradient") := by
  unfold compileGradientPathG
  cases e
  case powSum v kk => exact Or.inl ⟨by simp [kindOf], v, kk, rfl, h⟩
  case unSum v o => exact Or.inr (Or.inl ⟨by simp [kindOf], v, o, rfl, h⟩)
  all_goals
    refine Or.inr (Or.inr ⟨by simp [kindOf], ?_⟩)
    simp only [compileGradient] at h
    split at h
    · cases h; rfl
    · cases h

/-- `compile_hessian` -/
theorem compileHessian_path (e : Expr) (V : List Var) (c : HessClo) (h : compileHessian e V = .ok c)
    (m : Nat) (ac sc : Bool) :
    match e with
    | .powSum v k => ∃ idx, indicesOf V v.vars = some idx ∧
        c.name = compileHessianPathG "powSum" k "" (isFull idx V.length) m ac sc
    | .unSum v op => ∃ idx, indicesOf V v.vars = some idx ∧
        c.name = compileHessianPathG "unSum" 0 (vopName op) (isFull idx V.length) m ac sc
    | _ => c.name = compileHessianPathG (kindOf e) 0 "" false m ac sc := by
  unfold compileHessianPathG
  cases e
  case powSum v k =>
    simp only [compileHessian] at h
    cases hi : indicesOf V v.vars with
    | none => simp [hi] at h
    | some idx =>
      refine ⟨idx, hi, ?_⟩
      simp only [hi] at h
      by_cases h1 : k = 1
      · simp [h1] at h ⊢; cases h; rfl
      · by_cases h2 : k = 2
        · simp [h2] at h ⊢; cases h; rfl
        · cases hf : isFull idx V.length <;> simp [h1, h2, hf] at h ⊢ <;> cases h <;> rfl
  case unSum v op =>
    simp only [compileHessian] at h
    cases hi : indicesOf V v.vars with
    | none => simp [hi] at h
    | some idx =>
      refine ⟨idx, hi, ?_⟩
      simp only [hi] at h
      cases op <;> cases hf : isFull idx V.length <;>
        simp [hessFastOp, hf, vopName] at h ⊢ <;>
        (first
          | (cases h; rfl)
          | (split at h <;> first | (cases h; rfl) | cases h))
  all_goals
    simp only [compileHessian] at h
    simp [kindOf]
    split at h
    · cases h; rfl
    · cases h

/-- what `compile_jacobian` tests on its argument list -/
def kindOfList : List Expr → String
  | [e] => kindOf e
  | _ => "other"

/-- "scaled-variable pattern" as the source consults it (only for a single row) -/
def scaledOf (es : List Expr) (V : List Var) : Bool :=
  match computeJacobian es V with
  | [row] => (scaledPattern row V).isSome
  | _ => false

/-- everything of `compile_jacobian` after "fast path 0" -/
def generalBranch (es : List Expr) (V : List Var) : Except JErr JacClo :=
  let J := computeJacobian es V
  match allConst J with
  | some M => .ok (.constant M)
  | none =>
    let pat : Option Cst :=
      match J with
      | [row] => scaledPattern row V
      | _ => none
    match pat with
    | some c => .ok (.scaled c)
    | none => if J.all (fun r => r.all (namesOK V)) then .ok (.general V J) else .error .keyError

theorem length_computeJacobian (es : List Expr) (V : List Var) : (computeJacobian es V).length = es.length := by
  simp [computeJacobian]

theorem generalBranch_name (es : List Expr) (V : List Var) (c : JacClo) (h : generalBranch es V = .ok c) :
    c.name = (if (allConst (computeJacobian es V)).isSome = true then "constant_jacobian_fn"
              else if (es.length == 1) = true then
                (if scaledOf es V = true then "scaled_variable_jacobian_fn" else "jacobian_fn")
              else "jacobian_fn") := by
  unfold generalBranch at h
  simp only at h
  cases ha : allConst (computeJacobian es V) with
  | some M => simp [ha] at h ⊢; cases h; rfl
  | none =>
    simp only [ha] at h
    simp only [Option.isSome_none, Bool.false_eq_true, if_false]
    have hlen := length_computeJacobian es V
    unfold scaledOf
    cases hJ : computeJacobian es V with
    | nil =>
      rw [hJ] at hlen
      simp only [hJ] at h
      have h0 : es.length = 0 := by simpa using hlen.symm
      simp [h0]
      split at h <;> cases h <;> rfl
    | cons row t =>
      cases t with
      | nil =>
        rw [hJ] at hlen
        have h1 : es.length = 1 := by simpa using hlen.symm
        simp only [hJ] at h
        cases hs : scaledPattern row V with
        | some cc => simp [hs] at h; cases h; simp [h1, JacClo.name, hs]
        | none =>
          simp [hs] at h
          simp [h1, hs]
          split at h <;> cases h <;> rfl
      | cons r2 t2 =>
        rw [hJ] at hlen
        have h2 : ¬ es.length = 1 := by
          simp at hlen; omega
        simp only [hJ] at h
        simp [h2]
        split at h <;> cases h <;> rfl

/-- `compile_jacobian`: the two vectorised single-row paths, the constant path, the scaled-variable path, the general path -/
theorem compileJacobian_path (es : List Expr) (V : List Var) (c : JacClo) (h : compileJacobian es V = .ok c)
    (k : Rat) (op : String) (f : Bool) :
    c.name = compileJacobianPathG (kindOfList es) k op f es.length
      (allConst (computeJacobian es V)).isSome (scaledOf es V) := by
  unfold compileJacobianPathG
  have other : kindOfList es = "other" → compileJacobian es V = generalBranch es V → 
      c.name = (if (allConst (computeJacobian es V)).isSome = true then "constant_jacobian_fn"
              else if (es.length == 1) = true then
                (if scaledOf es V = true then "scaled_variable_jacobian_fn" else "jacobian_fn")
              else "jacobian_fn") := fun _ he => generalBranch_name es V c (he ▸ h)
  cases es with
  | nil =>
    have := other rfl (by rfl)
    simpa [kindOfList] using this
  | cons e t =>
    cases t with
    | cons e2 t2 =>
      have := other rfl (by cases e <;> rfl)
      simpa [kindOfList] using this
    | nil =>
      cases e
      case powSum v kk =>
        simp only [compileJacobian] at h
        cases hc : compilePowerGradient v kk V with
        | error x => simp [hc, Except.map] at h
        | ok g => simp [hc, Except.map] at h; cases h; simp [kindOfList, kindOf, JacClo.name]
      case unSum v o =>
        simp only [compileJacobian] at h
        cases hc : compileUnaryGradient v o V with
        | error x => simp [hc, Except.map] at h
        | ok g => simp [hc, Except.map] at h; cases h; simp [kindOfList, kindOf, JacClo.name]
      all_goals
        have := other rfl (by rfl)
        simpa [kindOfList, kindOf] using this

end Optyx.Props.ClosurePathTie
