/-
  Optyx.Props.SymbolicJacTie — `Py.computeJacobian` / `Py.computeHessian` (the symbolic matrices C03 / C17 are about) are the
  functions translated from `compute_jacobian` / `compute_hessian` on every run (`Generated/SymbolicJac.lean`), instantiated with
  the model's `jacRow` (whose equations are `JacRowTie`) and `grad` (`GradTie`).
-/
import Optyx.Py.Jacobian
import Optyx.Generated.SymbolicJac

namespace Optyx.Props.SymbolicJacTie
open Optyx Optyx.Py Optyx.Generated

theorem computeJacobian_eq (es : List Expr) (V : List Var) :
    computeJacobian es V = computeJacobianG jacRow grad es V := by
  unfold computeJacobian computeJacobianG
  apply List.map_congr_left
  intro e _
  unfold jacobianRow
  cases jacRow V e <;> rfl

theorem computeHessian_eq (e : Expr) (V : List Var) :
    computeHessian e V = computeHessianG grad e V := rfl

end Optyx.Props.SymbolicJacTie
