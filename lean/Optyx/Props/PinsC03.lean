/-
  Optyx.Props.PinsC03 — transcription anchors of C03 (harness/source_pins.py).
  Each theorem says: the function the hand-written model of C03 was read from has, in the source of this run,
  the fingerprint of the text it was read from.  Rewritten only by `source_pins.py --update` after a reviewed change.
-/
import Optyx.Generated.PinsC03

namespace Optyx.Props.PinsC03
open Optyx.Generated.PinsC03

/-- `compile_gradient` (core/compiler.py) -/
theorem pin_compiler_compile_gradient_anchor : pin_compiler_compile_gradient = "19d1f93c3bdc18f8" := rfl
/-- `_compile_vectorized_power_gradient` (core/compiler.py) -/
theorem pin_compiler_compile_vectorized_power_gradient_anchor : pin_compiler_compile_vectorized_power_gradient = "abe0e8d8d48a69e7" := rfl
/-- `_compile_vectorized_unary_gradient` (core/compiler.py) -/
theorem pin_compiler_compile_vectorized_unary_gradient_anchor : pin_compiler_compile_vectorized_unary_gradient = "6e886c928b66b5e2" := rfl
/-- `compile_jacobian` (core/autodiff.py) -/
theorem pin_autodiff_compile_jacobian_anchor : pin_autodiff_compile_jacobian = "40a13139a06a856b" := rfl

/-- every function the model of C03 transcribes (and no translator covers) is the one it was read from -/
theorem anchors : pin_compiler_compile_gradient = "19d1f93c3bdc18f8" ∧ pin_compiler_compile_vectorized_power_gradient = "abe0e8d8d48a69e7" ∧ pin_compiler_compile_vectorized_unary_gradient = "6e886c928b66b5e2" ∧ pin_autodiff_compile_jacobian = "40a13139a06a856b" :=
  ⟨pin_compiler_compile_gradient_anchor, pin_compiler_compile_vectorized_power_gradient_anchor, pin_compiler_compile_vectorized_unary_gradient_anchor, pin_autodiff_compile_jacobian_anchor⟩

end Optyx.Props.PinsC03
