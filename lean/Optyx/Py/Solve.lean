/-
  Optyx.Py.Solve — executable model of the solver glue of optyx:

    * `solvers/scipy_solver.py::solve_scipy`   (everything except SciPy itself)
    * `solvers/lp_solver.py::solve_lp`         (everything except linprog / the extractor)
    * `problem.py::Problem.solve`, `_auto_select_method`
    * `solution.py::Solution.__getitem__ / _get_vector / _get_matrix`
    * `Variable.__init__` (binary bounds), the constructors and views of
      `VectorVariable` / `MatrixVariable` (`__getitem__`, `T`, `diagonal`, `diag`, `diag_matrix`)

  The solvers are *parameters*: a `World` carries the result records that `minimize`
  (first call, retry call) and `linprog` return, and an optional injected fault
  (step, exception kind).  Everything the Python does around those calls is mirrored
  line by line; the process/problem state it touches (`warnings.showwarning`, the
  recursion limit, `_solver_cache`, `_lp_cache`) is an explicit `PState` threaded through
  a tiny state+exception monad `M` (exceptions keep the state, like Python).

  Numbers are exact rationals.  NaN / ±inf inside a solver result are outside the model
  (a non-finite *bound* is `none`, exactly what `np.isfinite` tests).
  Core Lean only.
-/
import Optyx.Generated.Tables

namespace Optyx.Py.Solve
open Optyx

/-! ### numbers -/

/-- Python `abs` on a real -/
def absQ (a : Rat) : Rat := if a < 0 then -a else a
/-- Python `max(a, b)` (returns `a` unless `b > a`) -/
def maxQ (a b : Rat) : Rat := if a < b then b else a

/-- the double `1e-6` as an exact rational (`float.as_integer_ratio`): the value of the
    default `atol` and of `rtol` in `solve_scipy` -/
def tol6 : Rat := (4722366482869645 : Rat) / 4722366482869645213696

/-! ### statuses, results, solutions -/

inductive Status | optimal | infeasible | unbounded | maxIterations | failed | notSolved
  deriving DecidableEq, Repr, Inhabited

/-- `SolverStatus.<NAME>` -/
def Status.name : Status → String
  | .optimal => "OPTIMAL" | .infeasible => "INFEASIBLE" | .unbounded => "UNBOUNDED"
  | .maxIterations => "MAX_ITERATIONS" | .failed => "FAILED" | .notSolved => "NOT_SOLVED"

def Status.ofName : String → Option Status
  | "OPTIMAL" => some .optimal | "INFEASIBLE" => some .infeasible | "UNBOUNDED" => some .unbounded
  | "MAX_ITERATIONS" => some .maxIterations | "FAILED" => some .failed | "NOT_SOLVED" => some .notSolved
  | _ => none

/-- what `solve_scipy` reads from `result.message`: three independent substring tests on
    `message.lower()` -/
structure Msg where
  maxIter    : Bool   -- "maximum" in m and "iteration" in m
  infeasible : Bool   -- "infeasible" in m
  posDir     : Bool   -- "positive directional derivative" in m
  deriving DecidableEq, Repr, Inhabited

/-- `scipy.optimize.OptimizeResult` as far as `solve_scipy` reads it -/
structure ScipyResult where
  success : Bool
  msg     : Msg
  x       : List Rat
  fn      : Rat            -- `result.fun`
  nit     : Option Nat
  deriving Repr, Inhabited

/-- linprog's result as far as `solve_lp` reads it -/
structure LPResult where
  success : Bool
  status  : Nat
  x       : Option (List Rat)
  fn      : Option Rat
  nit     : Option Nat
  deriving Repr, Inhabited

/-- `Solution` (message text and timing are not modelled) -/
structure Solution where
  status     : Status
  objective  : Option Rat
  values     : List (String × Rat)      -- the dict, in insertion order
  iterations : Option Nat
  deriving DecidableEq, Repr, Inhabited

/-- `Solution(status=FAILED, message=…)` -/
def failedSolution : Solution := ⟨.failed, none, [], none⟩

/-! ### dict of values -/

/-- `d[k] = v` on an insertion-ordered dict -/
def dictSet (d : List (String × Rat)) (k : String) (v : Rat) : List (String × Rat) :=
  match d with
  | [] => [(k, v)]
  | (k', v') :: t => if k' == k then (k', v) :: t else (k', v') :: dictSet t k v

/-- `{name_i: float(x[i]) for i, name_i in enumerate(names)}` (caller guarantees `len x ≥ len names`) -/
def valuesOf (names : List String) (x : List Rat) : List (String × Rat) :=
  (names.zip x).foldl (fun d p => dictSet d p.1 p.2) []

def dictGet (d : List (String × Rat)) (k : String) : Option Rat :=
  match d with
  | [] => none
  | (k', v) :: t => if k' == k then some v else dictGet t k

def dictKeys (d : List (String × Rat)) : List String := d.map (·.1)

/-! ### constraints and bounds as the post-solve check sees them -/

inductive Sense | le | ge | eq
  deriving DecidableEq, Repr, Inhabited

/-- the user's `Constraint`: `g(x) sense 0`; `g` is abstract (compiled callable) -/
structure UCon where
  sense : Sense
  g     : List Rat → Rat

/-- an entry of `cache["scipy_constraints"]`: `{"type": "ineq" | "eq", "fun": f}` -/
structure SCon where
  isEq : Bool
  f    : List Rat → Rat

/-- `_build_solver_cache`: `>=` ↦ ineq g, `<=` ↦ ineq −g, `==` ↦ eq g -/
def toScipy (c : UCon) : SCon :=
  match c.sense with
  | .ge => ⟨false, c.g⟩
  | .le => ⟨false, fun x => -(c.g x)⟩
  | .eq => ⟨true, c.g⟩

/-- `Constraint.violation` at the point `x` -/
def violation (c : UCon) (x : List Rat) : Rat :=
  match c.sense with
  | .le => maxQ 0 (c.g x)
  | .ge => maxQ 0 (-(c.g x))
  | .eq => absQ (c.g x)

/-- `(lb, ub)`; `none` = not finite (`None`, `±inf`) -/
structure Bnd where
  lb : Option Rat
  ub : Option Rat
  deriving DecidableEq, Repr, Inhabited

/-- `atol + rtol * max(1.0, abs(v))` -/
def scaledTol (atol rtol v : Rat) : Rat := atol + rtol * maxQ 1 (absQ v)

/-- one iteration of the constraint loop: does it set `constraints_violated`? -/
def conViolated (atol rtol : Rat) (c : SCon) (x : List Rat) : Bool :=
  let v := c.f x
  let t := scaledTol atol rtol v
  if !c.isEq && v < -t then true
  else if c.isEq && absQ v > t then true
  else false

def ubViolated (atol rtol : Rat) (b : Bnd) (xi : Rat) : Bool :=
  match b.ub with
  | some ub => xi > ub + scaledTol atol rtol ub
  | none => false

/-- one iteration of the bounds loop (`if isfinite(lb) and … elif isfinite(ub) and …`) -/
def bndViolated (atol rtol : Rat) (b : Bnd) (xi : Rat) : Bool :=
  match b.lb with
  | some lb => if xi < lb - scaledTol atol rtol lb then true else ubViolated atol rtol b xi
  | none => ubViolated atol rtol b xi

/-- `accepted_point = result.success or "positive directional derivative" in message_lower` -/
def accepted (r : ScipyResult) : Bool := r.success || r.msg.posDir

/-- `constraints_violated` after both loops -/
def violatedAt (atol rtol : Rat) (cons : List SCon) (bnds : List Bnd) (r : ScipyResult) : Bool :=
  accepted r && (cons.any (fun c => conViolated atol rtol c r.x)
                 || (bnds.zip r.x).any (fun p => bndViolated atol rtol p.1 p.2))

/-- the status mapping chain -/
def statusOf (r : ScipyResult) (violated : Bool) : Status :=
  if r.success && !violated then .optimal
  else if r.msg.maxIter then .maxIterations
  else if r.msg.infeasible || violated then .infeasible
  else if r.msg.posDir then .optimal
  else .failed

/-- static data of a solve_scipy call that the post-processing reads -/
structure ScipyCfg where
  names    : List String      -- [v.name for v in problem.variables]
  bnds     : List Bnd         -- re-read from the variables
  cons     : List UCon        -- problem.constraints
  maximize : Bool
  tol      : Option Rat

def ScipyCfg.atol (c : ScipyCfg) : Rat := c.tol.getD tol6
def ScipyCfg.rtol (_ : ScipyCfg) : Rat := tol6
def ScipyCfg.scons (c : ScipyCfg) : List SCon := c.cons.map toScipy

/-- the `Solution(...)` at the end of `solve_scipy` -/
def finish (c : ScipyCfg) (r : ScipyResult) (violated : Bool) : Solution :=
  { status := statusOf r violated
    objective := some (if c.maximize then -r.fn else r.fn)
    values := valuesOf c.names r.x
    iterations := r.nit }

inductive Exc
  | noObjective | nonLinear
  | integerVariable (solver : String) (names : List String)
  | solverError           -- SolverError raised around a failed extraction
  | index                 -- IndexError: a result vector shorter than the variable list
  | key                   -- KeyError
  | value                 -- ValueError (slice step 0)
  | invalidSize | squareMatrix
  | recursion             -- only the fuel of the model; unreachable (theorem `retry_depth`)
  | injected (baseOnly : Bool)   -- the injected fault: an `Exception` subclass, or a BaseException-only class
  deriving DecidableEq, Repr, Inhabited

/-- would `except Exception` catch it? -/
def Exc.isException : Exc → Bool
  | .injected true => false
  | _ => true

def Exc.text : Exc → String
  | .noObjective => "raise:NoObjectiveError" | .nonLinear => "raise:NonLinearError"
  | .integerVariable s ns => "raise:IntegerVariableError:" ++ s ++ ":" ++ ",".intercalate ns
  | .solverError => "raise:SolverError" | .index => "raise:IndexError" | .key => "raise:KeyError"
  | .value => "raise:ValueError" | .invalidSize => "raise:InvalidSizeError"
  | .squareMatrix => "raise:SquareMatrixError" | .recursion => "raise:RecursionError"
  | .injected false => "raise:injected-Exception" | .injected true => "raise:injected-BaseException"

/-- what one pass of `solve_scipy` does after `minimize` returned `r` -/
inductive Pass
  | raised (e : Exc)
  | retry                  -- `return solve_scipy(problem, method="trust-constr", …)`
  | done (s : Solution)
  deriving DecidableEq, Repr, Inhabited

/-- everything after `minimize` returned, for one call of `solve_scipy` -/
def postPass (c : ScipyCfg) (method : String) (r : ScipyResult) : Pass :=
  if r.x.length < c.names.length then .raised .index      -- `result.x[i]` in the bounds loop / values dict
  else
    let v := violatedAt c.atol c.rtol c.scons c.bnds r
    if v && method == "SLSQP" then .retry
    else .done (finish c r v)

/-- `solve_scipy` after the solver call(s): `r1` = what the first `minimize` returned,
    `r2` = what the retry's `minimize` returns (only consulted on the retry path).
    `fuel` bounds the Python recursion; 2 is enough (`retry_depth`). -/
def postSolveScipyF : Nat → ScipyCfg → String → ScipyResult → ScipyResult → Pass
  | 0, _, _, _, _ => .raised .recursion
  | k + 1, c, method, r1, r2 =>
    match postPass c method r1 with
    | .retry => postSolveScipyF k c "trust-constr" r2 r2
    | p => p

def postSolveScipy (c : ScipyCfg) (method : String) (r1 r2 : ScipyResult) : Pass :=
  postSolveScipyF 2 c method r1 r2

/-! ### LP post-processing -/

/-- the parts of `LPData` that the glue reads -/
structure LPInfo where
  names    : List String     -- lp_data.variables
  c        : List Rat        -- lp_data.c
  c0       : Rat             -- lp_data.c0
  maximize : Bool            -- lp_data.sense == "max"
  deriving Repr, Inhabited

/-- the `elif result.status == k` chain, read from the regenerated table -/
def lpStatus (r : LPResult) : Status :=
  if r.success then .optimal
  else match Generated.lpStatusMap.lookup r.status with
    | some n => (Status.ofName n).getD .failed
    | none => .failed

def lpObjective (lp : LPInfo) (r : LPResult) : Option Rat :=
  r.fn.map fun f => (if lp.maximize then -f else f) + lp.c0

/-- everything in `solve_lp` after `linprog` returned -/
def postSolveLP (lp : LPInfo) (r : LPResult) : Except Exc Solution :=
  match r.x with
  | none => .ok ⟨lpStatus r, lpObjective lp r, [], r.nit⟩
  | some xs =>
    if xs.length < lp.names.length then .error .index
    else .ok ⟨lpStatus r, lpObjective lp r, valuesOf lp.names xs, r.nit⟩

/-- `c @ x` -/
def dot : List Rat → List Rat → Rat
  | a :: as, b :: bs => a * b + dot as bs
  | _, _ => 0

/-- the cost vector handed to linprog: `c = -c if sense == "max"` -/
def lpCost (lp : LPInfo) : List Rat := if lp.maximize then lp.c.map (fun a => -a) else lp.c

/-- the user's affine objective `Σ cᵢ·values[nameᵢ] + c0` read off a values dict
    (`none` when a name is missing — `evaluate` raises) -/
def affineAt (names : List String) (c : List Rat) (c0 : Rat) (values : List (String × Rat)) : Option Rat :=
  match names, c with
  | n :: ns, a :: as => do
    let v ← dictGet values n
    let rest ← affineAt ns as c0 values
    pure (a * v + rest)
  | _, _ => some c0

/-! ### variables, domains, the integrality guard -/

inductive Domain | continuous | integer | binary
  deriving DecidableEq, Repr, Inhabited

def Domain.text : Domain → String
  | .continuous => "continuous" | .integer => "integer" | .binary => "binary"

/-- `Variable` as far as the glue reads it -/
structure PVar where
  name   : String
  lb     : Option Rat
  ub     : Option Rat
  domain : Domain
  deriving DecidableEq, Repr, Inhabited

/-- `Variable.__init__`: binary variables get the bounds [0, 1] whatever was passed -/
def mkVariable (name : String) (lb ub : Option Rat) (domain : Domain) : PVar :=
  if domain == .binary then ⟨name, some 0, some 1, domain⟩ else ⟨name, lb, ub, domain⟩

/-- `[v for v in variables if v.domain != "continuous"]` -/
def nonContinuous (vars : List PVar) : List PVar := vars.filter (fun v => v.domain != .continuous)

def PVar.bnd (v : PVar) : Bnd := ⟨v.lb, v.ub⟩

/-! ### process / problem state, events, faults, the monad -/

inductive CKey | objFn | gradFn | bounds | scipyConstraints | hessFn
  deriving DecidableEq, Repr, Inhabited

/-- the keys `_build_solver_cache` returns -/
def builtKeys : List CKey := [.objFn, .gradFn, .bounds, .scipyConstraints]

/-- arguments of the `minimize` call that depend on the glue's decisions -/
structure MinArgs where
  method  : String
  x0      : Option (List Rat)    -- x0=…: the caller's start point (`none` = `_compute_initial_point(variables)`)
  useGrad : Bool                 -- jac=gradient unless derivative-free
  useHess : Bool                 -- hess=hess_fn
  bounds  : Option (List Bnd)    -- bounds=… only for BOUNDS_METHODS
  nCons   : Nat
  deriving DecidableEq, Repr, Inhabited

structure LinArgs where
  method : String
  cost   : List Rat              -- sign-adjusted `c`
  bounds : List Bnd
  deriving DecidableEq, Repr, Inhabited

inductive Event
  | warnRelax (solver : String) (names : List String)   -- the UserWarning of the guard
  | warnRetry                                           -- "SLSQP returned a solution that violates constraints…"
  | minimizeCall (a : MinArgs)
  | linprogCall (a : LinArgs)
  deriving DecidableEq, Repr, Inhabited

def Event.isSolverCall : Event → Bool
  | .minimizeCall _ | .linprogCall _ => true
  | _ => false

def Event.isWarnRelax : Event → Bool
  | .warnRelax _ _ => true
  | _ => false

/-- points at which something may raise during a solve -/
inductive Step
  | isLinear            -- is_linear / _is_linear_problem
  | autoSelect          -- _auto_select_method (compute_degree)
  | variables           -- problem.variables
  | warn                -- warnings.warn of the guard (raises when warnings are errors)
  | buildObj | buildGrad
  | buildCon (k : Nat) | buildJac (k : Nat)     -- inside _build_solver_cache
  | compileHess
  | minimize            -- the solver entry, or any callback evaluated by the solver
  | postCon (k : Nat)   -- c["fun"](result.x) in the feasibility loop (outside the try)
  | retryWarn           -- warnings.warn before the retry
  | extract             -- LinearProgramExtractor.extract
  | linprog
  deriving DecidableEq, Repr, Inhabited

/-- an injected fault: in pass `pass` (0 = the call, 1 = the retry) at `step`,
    raising an `Exception` subclass (`baseOnly = false`) or a BaseException-only class
    such as KeyboardInterrupt (`baseOnly = true`) -/
structure Fault where
  pass     : Nat
  step     : Step
  baseOnly : Bool
  deriving DecidableEq, Repr, Inhabited

/-- `warnings.showwarning` is identified by a number; `handlerId` is the closure
    `warning_handler` that `solve_scipy` installs -/
def handlerId : Nat := 1000003

structure PState where
  hook        : Nat                      -- identity of warnings.showwarning
  reclimit    : Nat                      -- sys.getrecursionlimit()
  solverCache : Option (List CKey)       -- problem._solver_cache (its key set)
  lpCache     : Bool                     -- problem._lp_cache is not None
  linCache    : Option Bool              -- problem._is_linear_cache
  trace       : List Event               -- ghost: observable events so far
  fired       : Bool                     -- ghost: the injected fault has been raised
  deriving DecidableEq, Repr, Inhabited

inductive Res (α : Type)
  | ok (a : α)
  | exc (e : Exc)
  deriving DecidableEq, Repr

/-- state + exceptions; an exception keeps the state reached so far -/
abbrev M (α : Type) : Type := PState → Res α × PState

@[inline] def M.pure {α} (a : α) : M α := fun s => (.ok a, s)
@[inline] def M.bind {α β} (m : M α) (f : α → M β) : M β := fun s =>
  match m s with
  | (.ok a, s') => f a s'
  | (.exc e, s') => (.exc e, s')

instance : Monad M where
  pure := M.pure
  bind := M.bind

def raise {α} (e : Exc) : M α := fun s => (.exc e, s)
def emit (ev : Event) : M Unit := fun s => (.ok (), { s with trace := s.trace ++ [ev] })
def getState : M PState := fun s => (.ok s, s)
def setSolverCache (c : Option (List CKey)) : M Unit := fun s => (.ok (), { s with solverCache := c })
def setLpCache (b : Bool) : M Unit := fun s => (.ok (), { s with lpCache := b })
def setHook (h : Nat) : M Unit := fun s => (.ok (), { s with hook := h })
def setLinCache (b : Option Bool) : M Unit := fun s => (.ok (), { s with linCache := b })

def Fault.hits (f : Option Fault) (pass : Nat) (step : Step) : Option Bool :=
  match f with
  | some f => if f.pass == pass && f.step == step then some f.baseOnly else none
  | none => none

/-- a point where the injected fault may be raised -/
def fire (f : Option Fault) (pass : Nat) (step : Step) : M Unit := fun s =>
  match Fault.hits f pass step with
  | some b => (.exc (.injected b), { s with fired := true })
  | none => (.ok (), s)

/-- a straight-line sequence of steps, each of which may raise -/
def fireAll (f : Option Fault) (pass : Nat) : List Step → M Unit
  | [] => pure ()
  | st :: t => do
    fire f pass st
    fireAll f pass t

/-- `for k in ks: <steps of iteration k>` -/
def fireEach (f : Option Fault) (pass : Nat) (mk : Nat → List Step) : List Nat → M Unit
  | [] => pure ()
  | k :: t => do
    fireAll f pass (mk k)
    fireEach f pass mk t

/-! ### the problem as the glue sees it, and the outside world -/

structure PCon where
  sense  : Sense
  linear : Bool            -- is_linear(c.expr)
  deg    : Option Nat      -- compute_degree(c.expr)
  g      : List Rat → Rat  -- compiled c.expr

structure Problem where
  hasObjective : Bool
  maximize     : Bool
  objLinear    : Bool           -- is_linear(objective)
  objDeg       : Option Nat     -- compute_degree(objective)
  cons         : List PCon
  vars         : List PVar      -- problem.variables, in solver order
  c            : List Rat       -- LP data of the objective (meaningful when linear)
  c0           : Rat

structure Opts where
  method     : String := "auto"
  strict     : Bool := false
  useHessian : Bool := true
  tol        : Option Rat := none
  x0         : Option (List Rat) := none   -- user-supplied start point (passed through unchanged, also to the retry)

/-- everything the glue does not compute itself -/
structure World where
  r1    : ScipyResult      -- what the first `minimize` returns
  r2    : ScipyResult      -- what the retry's `minimize` returns
  lr    : LPResult         -- what `linprog` returns
  fault : Option Fault

def Problem.isLinear (p : Problem) : Bool := p.hasObjective && p.objLinear && p.cons.all (·.linear)

def Problem.cfg (p : Problem) (o : Opts) : ScipyCfg :=
  { names := p.vars.map (·.name), bnds := p.vars.map PVar.bnd,
    cons := p.cons.map (fun c => ⟨c.sense, c.g⟩), maximize := p.maximize, tol := o.tol }

def Problem.lpInfo (p : Problem) : LPInfo :=
  { names := p.vars.map (·.name), c := p.c, c0 := p.c0, maximize := p.maximize }

/-- the guard of both solvers: `non_continuous` non-empty → strict raises, else warns -/
def guard (w : World) (pass : Nat) (solver : String) (strict : Bool) (vars : List PVar) : M Unit :=
  let d := nonContinuous vars
  if d.isEmpty then pure ()
  else if strict then raise (.integerVariable solver (d.map (·.name)))
  else do
    fire w.fault pass .warn
    emit (.warnRelax solver (d.map (·.name)))

/-- `cache = problem._solver_cache; if cache is None: cache = _build_solver_cache(…);
    problem._solver_cache = cache` — the assignment happens only after the build returned.
    From here on the local `cache` *is* the dict stored on the problem, so the following steps
    read and update `solverCache` in the state. -/
def ensureCache (w : World) (pass : Nat) (p : Problem) : M Unit := do
  let s ← getState
  match s.solverCache with
  | some _ => pure ()
  | none =>
    if !p.hasObjective then raise .noObjective
    else do
      fire w.fault pass .buildObj
      fire w.fault pass .buildGrad
      fireEach w.fault pass (fun k => [.buildCon k, .buildJac k]) (List.range p.cons.length)
      setSolverCache (some builtKeys)

/-- `cache["obj_fn"]`, `cache["grad_fn"]`, `cache["scipy_constraints"]` (KeyError when absent),
    then `cache["bounds"] = bounds` -/
def useCache : M Unit := do
  let s ← getState
  match s.solverCache with
  | none => raise .key
  | some keys =>
    if keys.contains .objFn && keys.contains .gradFn && keys.contains .scipyConstraints then
      (if keys.contains .bounds then pure () else setSolverCache (some (keys ++ [.bounds])))
    else raise .key

/-- the lazily compiled Hessian: `cache["hess_fn"]` is assigned only after `compile_hessian`
    returned.  Returns whether `hess=` is passed to `minimize`. -/
def ensureHess (w : World) (pass : Nat) (o : Opts) (method : String) : M Bool :=
  if o.useHessian && Generated.hessianMethods.contains method then do
    let s ← getState
    match s.solverCache with
    | none => raise .key
    | some keys =>
      if keys.contains .hessFn then pure true
      else do
        fire w.fault pass .compileHess
        setSolverCache (some (keys ++ [.hessFn]))
        pure true
  else pure false

def minArgs (p : Problem) (o : Opts) (method : String) (useHess : Bool) : MinArgs :=
  { method := method
    x0 := o.x0
    useGrad := !Generated.derivativeFreeMethods.contains method
    useHess := useHess
    bounds := if !p.vars.isEmpty && Generated.boundsMethods.contains method then some (p.vars.map PVar.bnd) else none
    nCons := p.cons.length }

/-- `try: body  except Exception as e: handler(e)` — BaseException-only classes propagate -/
def tryExcept {α} (body : M α) (handler : Exc → M α) : M α := fun s =>
  match body s with
  | (.ok a, s') => (.ok a, s')
  | (.exc e, s') => if e.isException then handler e s' else (.exc e, s')

/-- `old = warnings.showwarning; try: warnings.showwarning = h; … finally: warnings.showwarning = old`
    (the `except` branch of `solve_scipy` restores it too, before the `finally` does) -/
def withHook {α} (h : Nat) (body : M α) : M α := fun s =>
  match body { s with hook := h } with
  | (r, s') => (r, { s' with hook := s.hook })

/-- the call `minimize(fun=…, method=…, …)` itself: the solver runs (and may raise) -/
def minimizeCall (w : World) (pass : Nat) (a : MinArgs) : M (Option ScipyResult) := do
  emit (.minimizeCall a)
  fire w.fault pass .minimize
  pure (some (if pass == 0 then w.r1 else w.r2))

/-- `old = warnings.showwarning; try: warnings.showwarning = handler; result = minimize(…)
    except Exception: restore; return FAILED   finally: restore`.
    `none` = the `except Exception` branch was taken. -/
def minimizeBlock (w : World) (pass : Nat) (a : MinArgs) : M (Option ScipyResult) :=
  withHook handlerId (tryExcept (minimizeCall w pass a) (fun _ => pure none))

/-- one call of `solve_scipy`; `none` = it ends in the recursive retry call -/
def scipyPass (w : World) (p : Problem) (o : Opts) (pass : Nat) (method : String) : M (Option Solution) := do
  fire w.fault pass .variables
  if p.vars.isEmpty then pure (some failedSolution)
  else do
    guard w pass "SciPy" o.strict p.vars
    ensureCache w pass p
    useCache
    let useHess ← ensureHess w pass o method
    let r? ← minimizeBlock w pass (minArgs p o method useHess)
    match r? with
    | none => pure (some failedSolution)
    | some r =>
      (if accepted r then fireEach w.fault pass (fun k => [.postCon k]) (List.range p.cons.length) else pure ())
      match postPass (p.cfg o) method r with
      | .raised e => raise e
      | .done s => pure (some s)
      | .retry => do
        fire w.fault pass .retryWarn
        emit .warnRetry
        pure none

/-- `solve_scipy` with its recursion (fuel 2 suffices: the retry uses "trust-constr") -/
def solveScipyF (w : World) (p : Problem) (o : Opts) : Nat → Nat → String → M Solution
  | 0, _, _ => raise .recursion
  | k + 1, pass, method => do
    match ← scipyPass w p o pass method with
    | some s => pure s
    | none => solveScipyF w p o k (pass + 1) "trust-constr"

def solveScipy (w : World) (p : Problem) (o : Opts) (method : String) : M Solution :=
  solveScipyF w p o 2 0 method

def linArgs (p : Problem) (method : String) : LinArgs :=
  { method := method, cost := lpCost p.lpInfo, bounds := p.vars.map PVar.bnd }

/-- `try: result = linprog(**kw)  except Exception: return FAILED`; `none` = the except branch -/
def linprogBlock (w : World) (a : LinArgs) : M (Option LPResult) :=
  tryExcept (do
      emit (.linprogCall a)
      fire w.fault 0 .linprog
      pure (some w.lr))
    (fun _ => pure none)

/-- `if problem._lp_cache is not None: reuse (bounds re-read) else: try: extract; cache  except Exception: raise SolverError` -/
def ensureLp (w : World) : M Unit := do
  let s ← getState
  if s.lpCache then pure ()
  else
    tryExcept (do
        fire w.fault 0 .extract
        setLpCache true)
      (fun _ => raise .solverError)

/-- `solve_lp` -/
def solveLP (w : World) (p : Problem) (method : Option String) (strict : Bool) : M Solution := do
  if !p.hasObjective then raise .noObjective
  else do
    fire w.fault 0 .isLinear
    if !p.objLinear then raise .nonLinear
    else if !p.cons.all (·.linear) then raise .nonLinear
    else do
      fire w.fault 0 .variables
      guard w 0 "linprog" strict p.vars
      let method := method.getD "highs"
      ensureLp w
      let r? ← linprogBlock w (linArgs p method)
      match r? with
      | none => pure failedSolution
      | some r =>
        match postSolveLP p.lpInfo r with
        | .ok s => pure s
        | .error e => raise e

/-- `_auto_select_method` -/
def autoSelect (objDeg : Option Nat) (conDegs : List (Option Nat)) : String :=
  if conDegs.isEmpty then "L-BFGS-B"
  else
    let high : Option Nat → Bool := fun d => match d with | none => true | some k => k > 2
    if high objDeg then "trust-constr"
    else if conDegs.any high then "trust-constr"
    else "SLSQP"

inductive Route
  | lp (method : Option String)
  | scipy (method : String)
  deriving DecidableEq, Repr, Inhabited

/-- the routing of `Problem.solve` as a function of (method, isLinear, degrees) -/
def route (method : String) (isLinear : Bool) (objDeg : Option Nat) (conDegs : List (Option Nat)) : Route :=
  if method == "auto" && isLinear then .lp none
  else
    let m := if method == "auto" then autoSelect objDeg conDegs else method
    if m == "linprog" then .lp none
    else if m == "highs" || m == "highs-ds" || m == "highs-ipm" then .lp (some m)
    else .scipy m

/-- `Problem._is_linear_problem`: the cached verdict, else compute (may raise) and cache -/
def isLinearProblem (w : World) (p : Problem) : M Bool := do
  let s ← getState
  match s.linCache with
  | some b => pure b
  | none => do
    fire w.fault 0 .isLinear
    setLinCache (some p.isLinear)
    pure p.isLinear

/-- `Problem.solve` -/
def solve (w : World) (p : Problem) (o : Opts) : M Solution := do
  if !p.hasObjective then raise .noObjective
  else do
    let lin ← (if o.method == "auto" then isLinearProblem w p else pure false)
    (if o.method == "auto" && !lin then fire w.fault 0 .autoSelect else pure ())
    match route o.method lin p.objDeg (p.cons.map (·.deg)) with
    | .lp m => solveLP w p m o.strict
    | .scipy m => solveScipy w p o m

/-- a fresh process / problem state -/
def PState.init (hook reclimit : Nat) : PState :=
  { hook := hook, reclimit := reclimit, solverCache := none, lpCache := false, linCache := none, trace := [], fired := false }

/-- the invariant of the problem's caches: `_solver_cache` is `None` or a completely built
    dict (all keys `solve_scipy` reads are present) -/
def CacheValid (s : PState) : Prop :=
  match s.solverCache with
  | none => True
  | some keys => keys.contains .objFn = true ∧ keys.contains .gradFn = true
                 ∧ keys.contains .scipyConstraints = true ∧ keys.contains .bounds = true

instance (s : PState) : Decidable (CacheValid s) := by
  unfold CacheValid; cases s.solverCache <;> exact inferInstance

/-! ### the fault-free functional form of a solve

  What `solve` computes when nothing raises unexpectedly, as a pure function of the problem, the
  options and the solver answers: result + the events it emits.  `Lemmas/Solve.lean` proves that the
  monadic model above agrees with it from every valid cache state (`solve_det`). -/

/-- the guard as a pure function: (exception raised?, events emitted) -/
def guardPure (solver : String) (strict : Bool) (vars : List PVar) : Option Exc × List Event :=
  let d := nonContinuous vars
  if d.isEmpty then (none, [])
  else if strict then (some (.integerVariable solver (d.map (·.name))), [])
  else (none, [.warnRelax solver (d.map (·.name))])

def hessFlag (o : Opts) (method : String) : Bool := o.useHessian && Generated.hessianMethods.contains method

/-- one call of `solve_scipy` (`none` = it ends in the retry) -/
def passPure (w : World) (p : Problem) (o : Opts) (pass : Nat) (method : String) :
    Res (Option Solution) × List Event :=
  if p.vars.isEmpty then (.ok (some failedSolution), [])
  else
    match guardPure "SciPy" o.strict p.vars with
    | (some e, evs) => (.exc e, evs)
    | (none, warn) =>
      let evs := warn ++ [.minimizeCall (minArgs p o method (hessFlag o method))]
      match postPass (p.cfg o) method (if pass == 0 then w.r1 else w.r2) with
      | .raised e => (.exc e, evs)
      | .done s => (.ok (some s), evs)
      | .retry => (.ok none, evs ++ [.warnRetry])

def scipyPureF (w : World) (p : Problem) (o : Opts) : Nat → Nat → String → Res Solution × List Event
  | 0, _, _ => (.exc .recursion, [])
  | k + 1, pass, method =>
    match passPure w p o pass method with
    | (.ok (some s), evs) => (.ok s, evs)
    | (.ok none, evs) =>
      let r := scipyPureF w p o k (pass + 1) "trust-constr"
      (r.1, evs ++ r.2)
    | (.exc e, evs) => (.exc e, evs)

def scipyPure (w : World) (p : Problem) (o : Opts) (method : String) : Res Solution × List Event :=
  scipyPureF w p o 2 0 method

def lpPure (w : World) (p : Problem) (method : Option String) (strict : Bool) : Res Solution × List Event :=
  if !p.hasObjective then (.exc .noObjective, [])
  else if !p.objLinear then (.exc .nonLinear, [])
  else if !p.cons.all (·.linear) then (.exc .nonLinear, [])
  else
    match guardPure "linprog" strict p.vars with
    | (some e, evs) => (.exc e, evs)
    | (none, warn) =>
      let evs := warn ++ [.linprogCall (linArgs p (method.getD "highs"))]
      match postSolveLP p.lpInfo w.lr with
      | .ok s => (.ok s, evs)
      | .error e => (.exc e, evs)

def solvePure (w : World) (p : Problem) (o : Opts) : Res Solution × List Event :=
  if !p.hasObjective then (.exc .noObjective, [])
  else
    match route o.method p.isLinear p.objDeg (p.cons.map (·.deg)) with
    | .lp m => lpPure w p m o.strict
    | .scipy m => scipyPure w p o m

/-- the same problem with every domain attribute set to "continuous" (bounds untouched) -/
def Problem.relax (p : Problem) : Problem :=
  { p with vars := p.vars.map fun v => { v with domain := .continuous } }

/-! ### handles: VectorVariable / MatrixVariable and their views -/

structure PVec where
  name   : String
  lb     : Option Rat
  ub     : Option Rat
  domain : Domain
  vars   : List PVar            -- `_variables`; `size = len(_variables)` on every route
  deriving DecidableEq, Repr, Inhabited

structure PMat where
  name        : String
  nrows       : Nat
  ncols       : Nat
  lb          : Option Rat
  ub          : Option Rat
  domain      : Domain
  symmetric   : Bool
  isTranspose : Bool
  grid        : List (List PVar)   -- `_variables`
  deriving DecidableEq, Repr, Inhabited

/-- `VectorVariable.__init__` -/
def mkVector (name : String) (size : Int) (lb ub : Option Rat) (domain : Domain) : Except Exc PVec :=
  if size ≤ 0 then .error .invalidSize
  else .ok ⟨name, lb, ub, domain,
            (List.range size.toNat).map fun i => mkVariable s!"{name}[{i}]" lb ub domain⟩

/-- CPython `PySlice_AdjustIndices` -/
def sliceAdjust (n : Int) (start stop : Option Int) (step : Int) : Int × Int :=
  let lower : Int := if step < 0 then -1 else 0
  let upper : Int := if step < 0 then n - 1 else n
  let clamp (v : Int) : Int :=
    if v < 0 then (if v + n < lower then lower else v + n) else (if v > upper then upper else v)
  let s := match start with | none => (if step < 0 then upper else lower) | some v => clamp v
  let e := match stop with | none => (if step < 0 then lower else upper) | some v => clamp v
  (s, e)

/-- the indices selected by `list[start:stop:step]` on a list of length `n` (`step ≠ 0`) -/
def sliceIdx (n : Nat) (start stop : Option Int) (step : Int) : List Nat :=
  let (s, e) := sliceAdjust n start stop step
  let len : Nat :=
    if step > 0 then (if s < e then ((e - s - 1) / step + 1).toNat else 0)
    else (if e < s then ((s - e - 1) / (-step) + 1).toNat else 0)
  (List.range len).map fun (k : Nat) => (s + step * (k : Int)).toNat

structure PySlice where
  start : Option Int
  stop  : Option Int
  step  : Option Int
  deriving DecidableEq, Repr, Inhabited

/-- `list[slice]`; `ValueError` for step 0 -/
def pySlice {α} (l : List α) (k : PySlice) : Except Exc (List α) :=
  let step := k.step.getD 1
  if step == 0 then .error .value
  else .ok ((sliceIdx l.length k.start k.stop step).filterMap fun i => l[i]?)

/-- Python `a or b` on an optional int -/
def orInt (a : Option Int) (b : Int) : Int :=
  match a with
  | none => b
  | some v => if v == 0 then b else v

/-- `VectorVariable.__getitem__(slice)` -/
def PVec.slice (v : PVec) (k : PySlice) : Except Exc PVec := do
  let vs ← pySlice v.vars k
  if vs.isEmpty then .error .index
  else .ok ⟨s!"{v.name}[{orInt k.start 0}:{orInt k.stop v.vars.length}]", v.lb, v.ub, v.domain, vs⟩

/-- negative index normalisation + range check of `__getitem__(int)` -/
def normIndex (i : Int) (n : Nat) : Except Exc Nat :=
  let j := if i < 0 then (n : Int) + i else i
  if j < 0 || j ≥ n then .error .index else .ok j.toNat

/-- `VectorVariable.__getitem__(int)` -/
def PVec.get (v : PVec) (i : Int) : Except Exc PVar := do
  let j ← normIndex i v.vars.length
  match v.vars[j]? with
  | some e => .ok e
  | none => .error .index

/-- `MatrixVariable.__init__` (a symmetric matrix reuses the upper-triangle objects) -/
def mkMatrix (name : String) (rows cols : Int) (lb ub : Option Rat) (domain : Domain) (symmetric : Bool) :
    Except Exc PMat :=
  if rows ≤ 0 then .error .invalidSize
  else if cols ≤ 0 then .error .invalidSize
  else if symmetric && rows != cols then .error .squareMatrix
  else
    let r := rows.toNat
    let c := cols.toNat
    .ok { name := name, nrows := r, ncols := c, lb := lb, ub := ub, domain := domain,
          symmetric := symmetric, isTranspose := false,
          grid := (List.range r).map fun i => (List.range c).map fun j =>
            if symmetric && j < i then mkVariable s!"{name}[{j},{i}]" lb ub domain
            else mkVariable s!"{name}[{i},{j}]" lb ub domain }

def gridGet (g : List (List PVar)) (i j : Nat) : Option PVar := (g[i]?).bind (·[j]?)

/-- `MatrixVariable._transpose_view` -/
def PMat.T (m : PMat) : PMat :=
  { name := s!"{m.name}.T", nrows := m.ncols, ncols := m.nrows, lb := m.lb, ub := m.ub,
    domain := m.domain, symmetric := m.symmetric, isTranspose := !m.isTranspose,
    grid := (List.range m.ncols).map fun i => (List.range m.nrows).filterMap fun j => gridGet m.grid j i }

/-- `MatrixVariable._from_variables` -/
def matFromVariables (name : String) (grid : List (List PVar)) (lb ub : Option Rat) (domain : Domain) : PMat :=
  { name := name, nrows := grid.length, ncols := (grid.head?.map List.length).getD 0, lb := lb, ub := ub,
    domain := domain, symmetric := false, isTranspose := false, grid := grid }

/-- `A[i, j]` -/
def PMat.get (m : PMat) (i j : Int) : Except Exc PVar := do
  let i ← normIndex i m.nrows
  let j ← normIndex j m.ncols
  match gridGet m.grid i j with
  | some e => .ok e
  | none => .error .index

/-- `A[i, cs]` (row) -/
def PMat.row (m : PMat) (i : Int) (cs : PySlice) : Except Exc PVec := do
  let i ← normIndex i m.nrows
  let vs ← pySlice ((m.grid[i]?).getD []) cs
  if vs.isEmpty then .error .index
  else .ok ⟨s!"{m.name}[{i},:]", m.lb, m.ub, m.domain, vs⟩

/-- `A[rs, j]` (column) -/
def PMat.col (m : PMat) (rs : PySlice) (j : Int) : Except Exc PVec := do
  let j ← normIndex j m.ncols
  let rows ← pySlice m.grid rs
  let vs := rows.filterMap (·[j]?)
  if vs.isEmpty then .error .index
  else .ok ⟨s!"{m.name}[:,{j}]", m.lb, m.ub, m.domain, vs⟩

/-- `A[rs, cs]` (sub-matrix) -/
def PMat.sub (m : PMat) (rs cs : PySlice) : Except Exc PMat := do
  let rows ← pySlice m.grid rs
  if rows.isEmpty then .error .index
  else do
    let g ← rows.mapM (fun r => pySlice r cs)
    if ((g.head?.map List.length).getD 0) == 0 then .error .index
    else .ok (matFromVariables
      s!"{m.name}[{orInt rs.start 0}:{orInt rs.stop m.nrows},{orInt cs.start 0}:{orInt cs.stop m.ncols}]"
      g m.lb m.ub m.domain)

/-- `A.diagonal()` and `diag(A)` -/
def PMat.diagonal (m : PMat) : Except Exc PVec :=
  if m.nrows != m.ncols then .error .squareMatrix
  else .ok ⟨s!"diag({m.name})", m.lb, m.ub, m.domain,
            (List.range m.nrows).filterMap fun i => gridGet m.grid i i⟩

/-- `diag_matrix(vector, lb, ub)` -/
def diagMatrix (v : PVec) (lb ub : Option Rat) : PMat :=
  let n := v.vars.length
  matFromVariables s!"diag({v.name})"
    ((List.range n).map fun i => (List.range n).filterMap fun j =>
      if i == j then v.vars[i]? else some (mkVariable s!"_diag_{v.name}[{i},{j}]" (some 0) (some 0) v.domain))
    lb ub v.domain

def PMat.elems (m : PMat) : List PVar := m.grid.flatten

/-! ### Solution.__getitem__ -/

/-- `self.values[name]` -/
def lookupValue (values : List (String × Rat)) (name : String) : Except Exc Rat :=
  match dictGet values name with
  | some v => .ok v
  | none => .error .key

/-- a Python loop filling a result element by element; the first failing element raises -/
def mapE {α β} (f : α → Except Exc β) : List α → Except Exc (List β)
  | [] => .ok []
  | a :: t =>
    match f a with
    | .error e => .error e
    | .ok b =>
      match mapE f t with
      | .error e => .error e
      | .ok bs => .ok (b :: bs)

/-- `Solution._get_vector` -/
def getVector (values : List (String × Rat)) (v : PVec) : Except Exc (List Rat) :=
  mapE (fun e => lookupValue values e.name) v.vars

/-- `Solution._get_matrix`: `result[i, j] = self.values[mat[i, j].name]` for `i < rows`, `j < cols` -/
def getMatrix (values : List (String × Rat)) (m : PMat) : Except Exc (List (List Rat)) :=
  mapE (fun i => mapE (fun j =>
      match gridGet m.grid i j with
      | some e => lookupValue values e.name
      | none => .error .index) (List.range m.ncols)) (List.range m.nrows)

end Optyx.Py.Solve
