/-
  Optyx.Py.LPSupport — loop idioms the generated step functionals of the LP extractors
  (`Optyx.Generated.LPStep`) refer to:

    lcLoop f es cs a      `total = a
                           for i, elem in enumerate(es): total += float(cs[i]) * f(elem)
                           return total`                       (`cs[i]` is evaluated before `f(elem)`)
    walkLcLoop w es cs r m   `for i, elem in enumerate(es):
                                  coeff = float(cs[i]) * m
                                  w(elem, var_index, result, coeff)`
  the other idioms (`addName`, `walkVars`, `walkLcVars`, `coeffLcVars`, `cstRat`, `cstInt`, `ratDiv`,
  `ratPowInt`) are in `Optyx.Py.Coeffs`.
-/
import Optyx.Py.Coeffs

namespace Optyx.Py
open Optyx

def lcLoop (f : Expr → Except Err Rat) : List Expr → List Rat → Rat → Except Err Rat
  | [], _, acc => .ok acc
  | e :: t, cs, acc =>
    match cs with
    | [] => .error .index
    | c :: cs' => do
      let k ← f e
      lcLoop f t cs' (acc + c * k)

def walkLcLoop (w : Expr → List Rat → Rat → Except Err (List Rat)) :
    List Expr → List Rat → List Rat → Rat → Except Err (List Rat)
  | [], _, r, _ => .ok r
  | e :: t, cs, r, m =>
    match cs with
    | [] => .error .index
    | c :: cs' => do
      let r1 ← w e r (c * m)
      walkLcLoop w t cs' r1 m

end Optyx.Py
