/-
  Optyx.Py.ProblemVars — executable model of how a `Problem` finds and orders its variables
  (/repo/src/optyx/problem.py, `Variable.__init__` in core/expressions.py):

  * `Variable._sort_key` / `_natural_sort_key`: `re.split(r"(\d+)", name)` with the digit runs
    turned into integers, paired with the name itself as tie-break; tuple comparison as CPython
    does it (`TypeError` when a `str` meets an `int` — `keyLt?` returns `none` there);
  * `get_variables()` of every node (`exprVars`: the syntactic occurrences, left to right) and
    Python's `set` of `Variable`s (`dedupByName`: equality and hash are by name);
  * `_try_get_single_vector_source` (the explicit stack, one `svsVisit` per popped node);
  * `Problem.variables` (shortcut + general path; the iteration order of the `set` is the
    arbitrary function `perm`), `Problem.get_bounds`.
  ASCII digits only (`\d` also matches other Unicode decimal digits: out of scope).  Core Lean only.
-/
import Optyx.Syntax

namespace Optyx.Py.Api
open Optyx

/-! ### the natural sort key -/

inductive KeyPart
  | s (codes : List Nat)      -- a `str` element (its code points)
  | n (k : Nat)               -- an `int` element
  deriving DecidableEq, Repr, Inhabited

def isAsciiDigit (c : Char) : Bool := '0'.toNat ≤ c.toNat && c.toNat ≤ '9'.toNat

/-- `re.split(r"(\d+)", name)`: text, digits, text, …, text (text parts may be empty).
    `cur` is the part being read (reversed), `inDig` says whether it is a digit run. -/
def splitAux : List Char → List Char → Bool → List (List Char)
  | [], cur, inDig => if inDig then [cur.reverse, []] else [cur.reverse]
  | c :: t, cur, inDig =>
    if isAsciiDigit c then
      if inDig then splitAux t (c :: cur) true
      else cur.reverse :: splitAux t [c] true
    else
      if inDig then cur.reverse :: splitAux t [c] false
      else splitAux t (c :: cur) false

def splitDigits (name : String) : List (List Char) := splitAux name.toList [] false

/-- `int(p)` for a run of ASCII digits -/
def digitsToNat (ds : List Char) : Nat := ds.foldl (fun acc c => 10 * acc + (c.toNat - '0'.toNat)) 0

/-- `p.isdigit()` on the parts `re.split` produces: non-empty and all ASCII digits -/
def isDigitPart (p : List Char) : Bool := !p.isEmpty && p.all isAsciiDigit

/-- `tuple(int(p) if p.isdigit() else p for p in parts)` -/
def sortKey (name : String) : List KeyPart :=
  (splitDigits name).map fun p => if isDigitPart p then .n (digitsToNat p) else .s (p.map Char.toNat)

def codes (name : String) : List Nat := name.toList.map Char.toNat

/-- lexicographic `<` of two sequences given `<` on the elements (`==` decides where they differ) -/
def lexLt {α} [DecidableEq α] (lt : α → α → Bool) : List α → List α → Bool
  | [], [] => false
  | [], _ :: _ => true
  | _ :: _, [] => false
  | a :: as, b :: bs => if a = b then lexLt lt as bs else lt a b

/-- `a < b` between two tuple elements; `none` = `TypeError: '<' not supported between 'str' and 'int'` -/
def partLt? : KeyPart → KeyPart → Option Bool
  | .s a, .s b => some (lexLt (fun x y => decide (x < y)) a b)
  | .n a, .n b => some (decide (a < b))
  | _, _ => none

/-- CPython tuple `<`: first index where the elements differ (by `==`) decides -/
def tupleLt? : List KeyPart → List KeyPart → Option Bool
  | [], [] => some false
  | [], _ :: _ => some true
  | _ :: _, [] => some false
  | a :: as, b :: bs => if a = b then tupleLt? as bs else partLt? a b

/-- `_natural_sort_key(a) < _natural_sort_key(b)` for the keys `(sort_key, name)` -/
def keyLt? (a b : String) : Option Bool :=
  if sortKey a = sortKey b then some (lexLt (fun x y => decide (x < y)) (codes a) (codes b))
  else tupleLt? (sortKey a) (sortKey b)

/-- the comparison `sorted` relies on (`not (b < a)`); the `none` branch is proved unreachable
    (`Props.C16.sortKey_total_order`) -/
def varLe (a b : Var) : Bool :=
  match keyLt? b.name a.name with
  | some true => false
  | _ => true

/-- `sorted(vars, key=_natural_sort_key)` (a stable sort) -/
def sortVars (vs : List Var) : List Var := vs.mergeSort varLe

/-! ### variables of an expression -/

mutual
/-- `expr.get_variables()` as the list of syntactic occurrences (left to right) -/
def exprVars : Expr → List Var
  | .const _ => []
  | .var v => [v]
  | .param _ => []
  | .bin _ l r => exprVars l ++ exprVars r
  | .un _ a => exprVars a
  | .linComb _ v => vecVars v
  | .vecSum v => v.vars
  | .exprSum es => listVars es
  | .dot l r => vecVars l ++ vecVars r
  | .l2 v => vecVars v
  | .l1 v => vecVars v
  | .quad v _ => vecVars v
  | .powSum v _ => v.vars
  | .unSum v _ => v.vars
  | .matSumV m => m.flat
  | .matSumE es => listVars es
  | .frob m => m.flat
def vecVars : Vec → List Var
  | .vars v => v.vars
  | .exprs es => listVars es
def listVars : ExprList → List Var
  | .nil => []
  | .cons e t => exprVars e ++ listVars t
end

def exprVarNames (e : Expr) : List String := (exprVars e).map (·.name)

/-- Python `set` of `Variable`s built by successive insertion: one entry per *name*
    (`__eq__`/`__hash__` are by name), the first inserted object is kept -/
def dedupByName : List Var → List Var
  | [] => []
  | v :: t => v :: (dedupByName t).filter (fun w => w.name != v.name)

/-! ### `_try_get_single_vector_source` -/

def svsCandidate (found : Option VVar) (v : VVar) : Option (Option VVar × List Expr) :=
  match found with
  | none => some (some v, [])
  | some f => if f.oid == v.oid then some (found, []) else none     -- `found_source is not candidate`

/-- the body of the `while stack:` loop for the popped node `cur`:
    `none` = `return None`; `some (found', pushed)` = go on, `pushed` in push order -/
def svsVisit (found : Option VVar) : Expr → Option (Option VVar × List Expr)
  | .const _ => some (found, [])
  | .param _ => some (found, [])
  | .vecSum v => svsCandidate found v
  | .linComb _ (.vars v) => svsCandidate found v
  | .linComb _ (.exprs _) => none
  | .powSum v _ => svsCandidate found v
  | .unSum v _ => svsCandidate found v
  | .dot (.vars l) (.vars r) => if l.oid == r.oid then svsCandidate found l else none
  | .dot _ _ => none
  | .exprSum es => some (found, es.toList)
  | .bin _ l r => some (found, [l, r])
  | .un _ a => some (found, [a])
  | .var _ => none
  | .l2 _ => none
  | .l1 _ => none
  | .quad _ _ => none
  | .matSumV _ => none
  | .matSumE _ => none
  | .frob _ => none

inductive SvsResult
  | outOfFuel
  | notSingle                       -- an early `return None`
  | finished (found : Option VVar)  -- the loop ended: `return found_source`
  deriving Inhabited

/-- the loop; the stack's top is the list head (`stack.pop()` takes the last pushed node) -/
def svsRun : Nat → List Expr → Option VVar → SvsResult
  | _, [], found => .finished found
  | 0, _ :: _, _ => .outOfFuel
  | fuel + 1, cur :: rest, found =>
    match svsVisit found cur with
    | none => .notSingle
    | some (found', pushed) => svsRun fuel (pushed.reverse ++ rest) found'

def singleVectorSource (e : Expr) : Option VVar :=
  match svsRun e.size [e] none with
  | .finished f => f
  | _ => none

/-! ### `Problem.variables`, `Problem.get_bounds` -/

def allOccurrences (obj : Option Expr) (cons : List Expr) : List Var :=
  (match obj with | some o => exprVars o | none => []) ++ cons.flatMap exprVars

/-- the general path: `sorted(all_vars, key=_natural_sort_key)`; `perm` = iteration order of the set -/
def generalVariables (perm : List Var → List Var) (obj : Option Expr) (cons : List Expr) : List Var :=
  sortVars (perm (dedupByName (allOccurrences obj cons)))

/-- does the shortcut apply, and to which vector -/
def shortcutSource (obj : Option Expr) (cons : List Expr) : Option VVar :=
  match obj with
  | none => none
  | some o =>
    match singleVectorSource o with
    | none => none
    | some src =>
      if cons.all (fun c => match singleVectorSource c with
                            | some s => s.oid == src.oid     -- `constraint_source is source_vector`
                            | none => false)
      then some src else none

/-- `Problem.variables` (first call; later calls return the cached list) -/
def problemVariables (perm : List Var → List Var) (obj : Option Expr) (cons : List Expr) : List Var :=
  match shortcutSource obj cons with
  | some src => sortVars src.vars
  | none => generalVariables perm obj cons

/-- `Problem.get_bounds()`; `bnd` = the `(lb, ub)` attributes of each `Variable` object (by identity) -/
def getBounds {β} (bnd : Nat → β) (perm : List Var → List Var) (obj : Option Expr) (cons : List Expr) :
    List β :=
  (problemVariables perm obj cons).map fun v => bnd v.oid

end Optyx.Py.Api
