/-
  Optyx.Py.Constraint — executable model of constraint construction and of what is done with
  a constraint afterwards:

  * `optyx.constraints._make_constraint`, `Constraint.evaluate / violation / is_satisfied`;
  * `optyx.core.vectors._vector_constraint`, `optyx.core.matrices._matrix_constraint`;
  * which method CPython / NumPy call for `a <= b`, `a >= b`, `a.eq(b)` given the operand
    kinds (`dispatch`), and the resulting constraint list (`compare`);
  * the SciPy constraint dicts of `optyx.solvers.scipy_solver._build_solver_cache`
    (`type`, `fun = ±f`, `jac = ±J`).
  Core Lean only.
-/
import Optyx.Py.VecApi
import Optyx.Denote

namespace Optyx.Py.Api
open Optyx

inductive Sense | le | ge | eq
  deriving DecidableEq, Repr, Inhabited

def Sense.show : Sense → String
  | .le => "<=" | .ge => ">=" | .eq => "=="

/-- `optyx.constraints.Constraint` (the `name` field is never set by the operators) -/
structure Constraint where
  expr : Expr
  sense : Sense
  deriving Inhabited

/-- `_make_constraint(lhs, sense, rhs)`:
    `int`/`float` → `Constant(rhs)`; `Expression` → `lhs - rhs`; anything else → `Constant(float(rhs))`
    (`float()` works for NumPy scalars and 0-d arrays, raises `TypeError` for lists, n-d arrays and
    optyx containers). -/
def mkConstraint (lhs : Expr) (s : Sense) (rhs : Operand) : Except Err Constraint :=
  match rhs with
  | .pyNum q => .ok ⟨.bin .sub lhs (cst q), s⟩
  | .scalar e => .ok ⟨.bin .sub lhs e, s⟩
  | .npNum q | .arr0 q => .ok ⟨.bin .sub lhs (cst q), s⟩
  | .epow _ _ | .eun _ _ => .error .outsideModel   -- an `Expression` that evaluates to an array (finding F24 family)
  | .arr1 _ | .arr2 _ | .arrN _ _ | .list1 _ | .list2 _
  | .vvar _ | .vexpr _ | .mvp _ _ | .mvar _ | .mexpr _ => .error .typeError

/-- the scalar value an accepted right-hand side stands for -/
def rhsExpr : Operand → Option Expr
  | .pyNum q | .npNum q | .arr0 q => some (cst q)
  | .scalar e => some e
  | _ => none

section Eval
variable {α : Type} [NumAlg α]

/-- `Constraint.evaluate(point)` -/
def Constraint.evaluate (c : Constraint) (ρ : String → α) (σ : Nat → α) : α := denote ρ σ c.expr

variable [LT α] [DecidableLT α]

/-- CPython `max(0.0, v)`: `v` if `v > 0.0` else `0.0` -/
def pyMax0 (v : α) : α := if (NumAlg.zero : α) < v then v else NumAlg.zero

/-- `Constraint.violation` as a function of the evaluated value -/
def violationOf (s : Sense) (v : α) : α :=
  match s with
  | .le => pyMax0 v
  | .ge => pyMax0 (NumAlg.neg v)
  | .eq => NumAlg.unop .abs v

def Constraint.violation (c : Constraint) (ρ : String → α) (σ : Nat → α) : α :=
  violationOf c.sense (c.evaluate ρ σ)

variable [LE α] [DecidableLE α]

/-- `Constraint.is_satisfied(point, tol)` -/
def Constraint.isSatisfied (c : Constraint) (ρ : String → α) (σ : Nat → α) (tol : α) : Bool :=
  decide (c.violation ρ σ ≤ tol)

end Eval

/-! ### element-wise constraints -/

def mapM_mk (s : Sense) : List Expr → List Operand → Except Err (List Constraint)
  | l :: ls, r :: rs =>
    match mkConstraint l s r with
    | .error e => .error e
    | .ok c => (mapM_mk s ls rs).map (c :: ·)
  | _, _ => .ok []

/-- `_vector_constraint(left, right, sense)`; `left` is a `VectorVariable` or `VectorExpression` -/
def vectorConstraint (left : VecLike) (right : Operand) (s : Sense) : Except Err (List Constraint) :=
  let ls := left.elems
  match right with
  | .pyNum q => mapM_mk s ls (List.replicate ls.length (.pyNum q))
  | .vvar w =>
    if w.vars.length != ls.length then .error .dimensionMismatch
    else mapM_mk s ls (w.vars.map fun x => Operand.scalar (.var x))
  | .vexpr es =>
    if es.length != ls.length then .error .dimensionMismatch
    else mapM_mk s ls (es.map Operand.scalar)
  | .mvp q v =>
    if q.length != ls.length then .error .dimensionMismatch
    else mapM_mk s ls ((mvpElems q v).map Operand.scalar)
  | .arr1 xs | .list1 xs =>
    if xs.length != ls.length then .error .dimensionMismatch
    else mapM_mk s ls (xs.map Operand.pyNum)             -- `float(val)`
  | .arr0 _ | .arr2 _ | .list2 _ | .arrN _ _ => .error .wrongDimensionality
  | .npNum _ | .scalar _ | .epow _ _ | .eun _ _ | .mvar _ | .mexpr _ => .error .invalidOperation

/-- `_matrix_constraint(left, right, sense)`: row-major list -/
def matrixConstraint (left : MatLike) (right : Operand) (s : Sense) : Except Err (List Constraint) :=
  let g := left.elems
  let ls := g.flatten
  match right with
  | .pyNum q => mapM_mk s ls (List.replicate ls.length (.pyNum q))
  | .arr2 r =>
    if gridShape r != gridShape g then .error .dimensionMismatch
    else mapM_mk s ls (r.flatten.map Operand.pyNum)      -- `float(right[i, j])`
  | .arr0 _ | .arr1 _ | .arrN _ _ => .error .dimensionMismatch
  | .mvar w =>
    if (w.nrows, w.ncols) != gridShape g then .error .dimensionMismatch
    else mapM_mk s ls (w.rows.flatten.map fun x => Operand.scalar (.var x))
  | .mexpr r =>
    if gridShape r != gridShape g then .error .dimensionMismatch
    else mapM_mk s ls (r.flatten.map Operand.scalar)
  | .npNum _ | .list1 _ | .list2 _ | .scalar _ | .vvar _ | .vexpr _ | .mvp _ _ | .epow _ _ | .eun _ _ =>
    .error .invalidOperation

/-! ### which method runs for `a <= b`, `a >= b`, `a.eq(b)` -/

/-- the relation as the user wrote it -/
inductive Rel | le | ge | eq
  deriving DecidableEq, Repr, Inhabited

def Rel.sense : Rel → Sense
  | .le => .le | .ge => .ge | .eq => .eq

/-- the sense of the reflected method (`a <= b` ⇒ `b.__ge__(a)`) -/
def Rel.flipped : Rel → Sense
  | .le => .ge | .ge => .le | .eq => .eq

/-- operand kinds that matter to the dispatch -/
inductive OKind
  | python      -- int, float, list: their comparison returns NotImplemented for optyx objects
  | npScalar    -- NumPy scalar on the left: defers to the reflected method
  | ndarray     -- ndarray.__le__ / __ge__: defers only to classes with `__array_ufunc__ = None`
  | exprNode    -- scalar `Expression` subclasses (no `__array_ufunc__`)
  | vecVar | vecExpr | mvpNode   -- `__array_ufunc__ = None`; mvpNode is a subclass of VectorExpression
  | matVar | matExpr             -- `__array_ufunc__ = None`
  deriving DecidableEq, Repr, Inhabited

/-- `isNpScalar`: the harness tells a Python float from np.float64 (both are `pyNum` by isinstance) -/
def Operand.kind (isNpScalar : Bool) : Operand → OKind
  | .pyNum _ => if isNpScalar then .npScalar else .python
  | .npNum _ => .npScalar
  | .arr0 _ | .arr1 _ | .arr2 _ | .arrN _ _ => .ndarray
  | .list1 _ | .list2 _ => .python
  | .scalar _ | .epow _ _ | .eun _ _ => .exprNode
  | .vvar _ => .vecVar
  | .vexpr _ => .vecExpr
  | .mvp _ _ => .mvpNode
  | .mvar _ => .matVar
  | .mexpr _ => .matExpr

def OKind.isOptyx : OKind → Bool
  | .python | .npScalar | .ndarray => false
  | _ => true

def OKind.arrayUfuncNone : OKind → Bool
  | .vecVar | .vecExpr | .mvpNode | .matVar | .matExpr => true
  | _ => false

inductive Dispatch
  | call (recvLeft : Bool) (s : Sense)   -- the receiver's constraint builder runs with sense `s`
  | numpyElementwise                     -- NumPy evaluates the comparison itself: an ndarray of bools, no constraint (F21)
  | typeError                            -- both sides return NotImplemented
  | attributeError                       -- `.eq` on an object that has no such method
  deriving DecidableEq, Repr, Inhabited

/-- CPython's rich-comparison protocol + NumPy's deferral rule on the operand kinds -/
def dispatch (l r : OKind) (rel : Rel) : Dispatch :=
  match rel with
  | .eq => if l.isOptyx then .call true .eq else .attributeError
  | _ =>
    if l.isOptyx then
      -- a right operand whose type is a proper subclass of the left operand's type is asked first
      if l == .vecExpr && r == .mvpNode then .call false rel.flipped
      else .call true rel.sense
    else if !r.isOptyx then .typeError       -- no optyx object involved: not a constraint at all
    else match l with
      | .ndarray => if r.arrayUfuncNone then .call false rel.flipped else .numpyElementwise
      | _ => .call false rel.flipped

inductive Outcome
  | single (c : Constraint)            -- a `Constraint`
  | many (cs : List Constraint)        -- a `list[Constraint]`
  | raised (e : Err)
  | numpyBool                          -- ndarray / numpy.bool_ of `True`s
  deriving Inhabited

/-- the constraint builder of a receiver -/
def build (recv other : Operand) (s : Sense) : Outcome :=
  match recv with
  | .scalar e =>
    match mkConstraint e s other with
    | .ok c => .single c
    | .error e => .raised e
  | .epow _ _ | .eun _ _ =>
    -- F24: `_make_constraint` runs with an array-valued node as lhs; a rhs that `float()` rejects still
    -- raises, anything else yields one Constraint outside the expression syntax
    match mkConstraint (cst 0) s other with
    | .error .typeError => .raised .typeError
    | _ => .raised .outsideModel
  | .vvar v =>
    match vectorConstraint (.vvar v) other s with | .ok cs => .many cs | .error e => .raised e
  | .vexpr es =>
    match vectorConstraint (.vexpr es) other s with | .ok cs => .many cs | .error e => .raised e
  | .mvp q v =>
    match vectorConstraint (.vexpr (mvpElems q v)) other s with | .ok cs => .many cs | .error e => .raised e
  | .mvar m =>
    match matrixConstraint (.mvar m) other s with | .ok cs => .many cs | .error e => .raised e
  | .mexpr g =>
    match matrixConstraint (.mexpr g) other s with | .ok cs => .many cs | .error e => .raised e
  | _ => .raised .typeError

/-- `left <= right`, `left >= right`, `left.eq(right)` on the real operators -/
def compare (left right : Operand) (lNp rNp : Bool) (rel : Rel) : Outcome :=
  match dispatch (left.kind lNp) (right.kind rNp) rel with
  | .call true s => build left right s
  | .call false s => build right left s
  | .numpyElementwise => .numpyBool
  | .typeError => .raised .typeError
  | .attributeError => .raised .outsideModel

/-! ### the SciPy constraint dictionaries of `_build_solver_cache` -/

inductive ScipyType | ineq | eq
  deriving DecidableEq, Repr, Inhabited

/-- `{"type": …, "fun": …, "jac": …}` built from the compiled function `f` of `c.expr` and its
    compiled Jacobian row `J` -/
structure ScipyDict (X α : Type) where
  type : ScipyType
  fn : X → α
  jac : X → List α

def scipyConstraint {X α : Type} [NumAlg α] (s : Sense) (f : X → α) (J : X → List α) : ScipyDict X α :=
  match s with
  | .ge => ⟨.ineq, f, J⟩
  | .le => ⟨.ineq, fun x => NumAlg.neg (f x), fun x => (J x).map NumAlg.neg⟩
  | .eq => ⟨.eq, f, J⟩

end Optyx.Py.Api
