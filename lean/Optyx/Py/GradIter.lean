/-
  Optyx.Py.GradIter — executable model of `_gradient_iterative` and of the three-tier switch
  `gradient` (core/autodiff.py), plus that module's `_estimate_tree_depth`.

  * the explicit stack holds `(node, phase)` (the third tuple component `child_grads` is always
    `[]` in the source); `results: dict[int, Expression]` is keyed by `id(node)`, modelled as an
    association list keyed by the identities carried by `ITree` (Py/Vars.lean).  The driver
    runs it on `label 0 e` (a tree, no sharing); the refinement theorem is proved for every
    DAG whose identities are consistent (equal id ⇒ same object ⇒ equal subtree).
  * nodes with a registered rule (all eleven vector/matrix reductions) are finished in one
    iteration by `apply_gradient_rule(current, wrt)`; the rule bodies call the public
    `gradient(elem, wrt)` on their elements — that is `Py.grad` (Py/Grad.lean).
  * the operator rules are `Optyx.Generated.binaryRuleIter / unaryRuleIter`, regenerated from
    the body of `_gradient_iterative` on every run.
  * `results[id(child)]` for an absent key raises `KeyError` = `.error (.keyId id)`.
-/
import Optyx.Py.Eval
import Optyx.Py.Vars
import Optyx.Py.Grad

namespace Optyx.Py
open Optyx Optyx.Generated

/-- `has_gradient_rule(node)`: `type(node) in _gradient_registry` -/
def Atom.hasRule : Atom → Bool
  | .const _ | .var _ | .param _ => false
  | _ => true

/-- what one loop iteration stores for a node that is not a BinaryOp / UnaryOp -/
def atomGrad (wrt : Var) : Atom → Expr
  | .const _ => Expr.c 0                                         -- Constant(0.0)
  | .param _ => Expr.c 0                                         -- Constant(0.0)
  | .var v => if v.name == wrt.name then Expr.c 1 else Expr.c 0
  | a => grad wrt a.toExpr                                       -- apply_gradient_rule(current, wrt)

abbrev GRes := List (Nat × Expr)

/-- `results.get(i)` -/
def glook (R : GRes) (i : Nat) : Option Expr := (R.find? (·.1 == i)).map (·.2)

structure GSt where
  stack : List (ITree × Nat)   -- head = top
  res : GRes

/-- `results[i]` -/
def gget (R : GRes) (i : Nat) : Except CErr Expr :=
  match glook R i with
  | some d => .ok d
  | none => .error (.keyId i)

/-- one iteration of `while stack:` -/
def gstep (wrt : Var) (s : GSt) : Except CErr GSt :=
  match s.stack with
  | [] => .ok s
  | (t, ph) :: rest =>
    if (glook s.res t.id).isSome then .ok ⟨rest, s.res⟩          -- if node_id in results: continue
    else
    match t with
    | .leaf i a => .ok ⟨rest, (i, atomGrad wrt a) :: s.res⟩
    | .bin i op l r =>
      let self := Expr.bin op l.erase r.erase
      if ph == 0 then
        match glook s.res l.id, glook s.res r.id with
        | some dl, some dr =>                                      -- both children already computed
          .ok ⟨rest, (i, binaryRuleIter op l.erase r.erase dl dr self) :: s.res⟩
        | some _, none => .ok ⟨(r, 0) :: (t, 1) :: rest, s.res⟩
        | none, some _ => .ok ⟨(l, 0) :: (t, 1) :: rest, s.res⟩
        | none, none => .ok ⟨(l, 0) :: (r, 0) :: (t, 1) :: rest, s.res⟩
      else do
        let dl ← gget s.res l.id
        let dr ← gget s.res r.id
        pure ⟨rest, (i, binaryRuleIter op l.erase r.erase dl dr self) :: s.res⟩
    | .un i op a =>
      let self := Expr.un op a.erase
      if ph == 0 then
        match glook s.res a.id with
        | some d => .ok ⟨rest, (i, unaryRuleIter op a.erase d self) :: s.res⟩
        | none => .ok ⟨(a, 0) :: (t, 1) :: rest, s.res⟩
      else do
        let d ← gget s.res a.id
        pure ⟨rest, (i, unaryRuleIter op a.erase d self) :: s.res⟩

def grun (wrt : Var) : Nat → GSt → Except CErr GSt
  | 0, s => .ok s
  | n + 1, s =>
    match gstep wrt s with
    | .ok s' => grun wrt n s'
    | .error e => .error e

/-- the `while stack:` loop and the final `results.get(id(expr), Constant(0.0))` -/
def gradLoop (fuel : Nat) (wrt : Var) (t : ITree) : Except CErr Expr :=
  match grun wrt fuel ⟨[(t, 0)], []⟩ with
  | .error e => .error e
  | .ok ⟨[], R⟩ => .ok ((glook R t.id).getD (Expr.c 0))
  | .ok ⟨_ :: _, _⟩ => .error .fuel

/-- `has_gradient_rule(expr)` for the root -/
def ITree.rootRule : ITree → Option Atom
  | .leaf _ a => if a.hasRule then some a else none
  | _ => none

/-- `_gradient_iterative(expr, wrt)`; `.error .fuel` = the loop was cut off (never with
    `fuel ≥ 2 * t.nodes`) -/
def gradIter (fuel : Nat) (wrt : Var) (t : ITree) : Except CErr Expr :=
  match t.rootRule with
  | some a => .ok (grad wrt a.toExpr)     -- if has_gradient_rule(expr): return apply_gradient_rule(expr, wrt)
  | none => gradLoop fuel wrt t

/-- `_estimate_tree_depth` of core/autodiff.py (default mode): left spine over BinaryOp /
    UnaryOp only, cut at `max_check = 500` -/
def spineBU : Expr → Nat
  | .bin _ l _ => spineBU l + 1
  | .un _ a => spineBU a + 1
  | _ => 0

def depthG (e : Expr) : Nat := min (spineBU e) 500

def exprHasRule : Expr → Bool
  | .const _ | .var _ | .param _ | .bin _ _ _ | .un _ _ => false
  | _ => true

/-- `gradient(expr, wrt)`: registered rule, else depth switch between the explicit-stack
    and the recursive (`_gradient_cached`, = `Py.grad`) differentiator.  The source wraps the recursive
    call in `try … except RecursionError: return _gradient_iterative(expr, wrt)`: a CPython stack overflow
    (not modelled) is answered by the other arm, which computes the same expression (`C15.gradIter_eq`). -/
def gradient (thr : Nat) (wrt : Var) (e : Expr) : Except CErr Expr :=
  if exprHasRule e then .ok (grad wrt e)
  else if depthG e ≥ thr then gradIter (2 * skel e) wrt (label 0 e)
  else .ok (grad wrt e)

end Optyx.Py
