/-
  Optyx.Py.LRU — model of a process-wide `functools.lru_cache`.

  A cache is an association list (most recently used first) with a capacity.  Python finds
  an entry through `hash` + `__eq__`; only `__eq__` decides a hit, so the model is
  parameterised by a key equality `keyEq : K → K → Bool`:
    * `Variable` / `Parameter`: equality by *name*;
    * every other `Expression`: identity.
  Two layers:
    * `lookupOrCompute` with an *arbitrary* replacement policy `pol` (what is kept after a hit /
      after an insertion) — the theorems of C14 quantify over every policy that only keeps
      entries it was given (`Policy.Sound`);
    * `lru` — CPython's actual policy (hit ⇒ move to front, miss ⇒ insert in front, drop the
      least recently used entry when over capacity), an instance of the above.
-/
namespace Optyx.Py.LRU

variable {K V : Type}

/-- first entry whose key is `==`-equal to `k` (dict probe) -/
def find (keyEq : K → K → Bool) (k : K) : List (K × V) → Option (K × V)
  | [] => none
  | e :: t => if keyEq e.1 k then some e else find keyEq k t

/-- replacement policy: what the cache keeps after a hit on entry `e` / after inserting `e` -/
structure Policy (K V : Type) where
  onHit  : (K × V) → List (K × V) → List (K × V)
  onMiss : (K × V) → List (K × V) → List (K × V)

/-- `functools.lru_cache(maxsize)(f)(k)` with the policy left open: returns the value and the new cache -/
def lookupOrCompute (keyEq : K → K → Bool) (pol : Policy K V) (f : K → V)
    (c : List (K × V)) (k : K) : V × List (K × V) :=
  match find keyEq k c with
  | some e => (e.2, pol.onHit e c)
  | none => let v := f k; (v, pol.onMiss (k, v) c)

/-- a run of requests; returns the values in order and the final cache -/
def runRequests (keyEq : K → K → Bool) (pol : Policy K V) (f : K → V) :
    List (K × V) → List K → List V × List (K × V)
  | c, [] => ([], c)
  | c, k :: ks =>
    let r := lookupOrCompute keyEq pol f c k
    let rest := runRequests keyEq pol f r.2 ks
    (r.1 :: rest.1, rest.2)

/-! ### CPython's policy -/

def removeKey (keyEq : K → K → Bool) (k : K) : List (K × V) → List (K × V)
  | [] => []
  | e :: t => if keyEq e.1 k then t else e :: removeKey keyEq k t

/-- hit: move to front; miss: insert in front and keep the `cap` most recent entries
    (`maxsize = 0` keeps nothing) -/
def lru (keyEq : K → K → Bool) (cap : Nat) : Policy K V where
  onHit e c := e :: removeKey keyEq e.1 c
  onMiss e c := (e :: c).take cap

/-- `cache_clear()` -/
def clear : List (K × V) := []

end Optyx.Py.LRU
