/-
  Optyx.Py.Compile — executable model of core/compiler.py (value path):
  `compile_expression`, `_compile_cached` (the depth switch only; the lru_cache itself is C14),
  `_estimate_tree_depth`, `_build_evaluator`, `_build_vector_evaluator`,
  `_build_evaluator_iterative`, `compile_to_dict_function`, `CompiledExpression.value`.

  The Python closures are first-order data here: `Clo` has one constructor per lambda shape
  the two builders create (the captured values are the constructor arguments), `Clo.run` is
  "calling the lambda on the point array `x`" with the parameter store `σ` *at call time*
  (`lambda x, p=param: p.value` captures the Parameter object, not its value).

  * `var_indices[name]` for a name that is not a key raises `KeyError` = `.error (.keyError name)`;
    builders visit children left to right, so the first unknown name is the one reported.
  * `x[i]` past the end of the point raises `IndexError` = `.error (.index i)`.
  * `BinaryOp.op ∉ {+,-,*,/,**}` (UnknownOperatorError) and unknown node classes
    (InvalidExpressionError) cannot be expressed: `BinOp` / `Expr` are closed.
    `ElementwisePower` / `ElementwiseUnary` (array-valued) have no `Expr` constructor.
  * the explicit-stack builder is `cstep` (one iteration of `while stack:`) + `crun fuel`;
    the tuple's third component `children_fns` is always `[]` in the source and is dropped.
-/
import Optyx.Py.Eval

namespace Optyx.Py
open Optyx NumAlg

/-! ### the closure IR -/

mutual
inductive Clo
  | const (c : Cst)                              -- lambda x: value            / lambda x, v=value: v
  | param (p : Par)                              -- lambda x, p=param: p.value
  | idx (i : Nat)                                -- lambda x, i=idx: x[i]
  | bin (op : BinOp) (lf rf : Clo)               -- lambda x, lf, rf: lf(x) <op> rf(x)
  | un (op : UnOp) (f : Clo)                     -- lambda x, f, np_f: np_f(f(x))
  | dotIdx (cs : List Rat) (is : List Nat)       -- lambda x, c, idx: np.dot(c, x[idx])
  | dotFns (cs : List Rat) (fs : CloList)        -- lambda x, c, fns: np.dot(c, np.array([f(x) for f in fns]))
  | sumIdx (is : List Nat)                       -- lambda x, idx: np.sum(x[idx])
  | sumFns (fs : CloList)                        -- lambda x, fns: float(sum(f(x) for f in fns))
  | dotVV (lf rf : VClo)                         -- lambda x, lf, rf: np.dot(lf(x), rf(x))
  | norm (vf : VClo)                             -- lambda x, vf: np.linalg.norm(vf(x))
  | sumAbs (vf : VClo)                           -- lambda x, vf: np.sum(np.abs(vf(x)))
  | quad (vf : VClo) (q : List (List Rat))       -- lambda x, vf, Q: float(vf(x) @ Q @ vf(x))
  | sqrtSumSq (fs : CloList)                     -- lambda x, fns: float(np.sqrt(sum(f(x) * f(x) for f in fns)))
  | powSumIdx (is : List Nat) (k : Rat)          -- lambda x, idx, k: float(np.sum(x[idx] ** k))
  | unSumIdx (is : List Nat) (op : VOp)          -- lambda x, idx, f: float(np.sum(f(x[idx])))
/-- results of `_build_vector_evaluator` -/
inductive VClo
  | gather (is : List Nat)                       -- lambda x, idx: x[idx]
  | fns (fs : CloList)                           -- lambda x, fns: np.array([f(x) for f in fns])
inductive CloList
  | nil
  | cons (c : Clo) (t : CloList)
end

instance : Inhabited Clo := ⟨.const (.rat 0)⟩

def CloList.toList : CloList → List Clo
  | .nil => []
  | .cons c t => c :: t.toList

variable {α : Type} [NumAlg α]

/-- `x[i]` -/
def getIdx (x : List α) (i : Nat) : Except CErr α :=
  match x[i]? with
  | some a => .ok a
  | none => .error (.index i)

/-- `x[idx]` (fancy indexing with an index array) -/
def gather (x : List α) : List Nat → Except CErr (List α)
  | [] => .ok []
  | i :: t => do
    let a ← getIdx x i
    let r ← gather x t
    pure (a :: r)

mutual
/-- calling a compiled closure on the point `x` with the parameter store `σ` of that moment -/
def Clo.run (x : List α) (σ : Nat → α) : Clo → Except CErr α
  | .const c => .ok (cst c)
  | .param p => .ok (σ p.oid)
  | .idx i => getIdx x i
  | .bin op lf rf => do
    let a ← Clo.run x σ lf
    let b ← Clo.run x σ rf
    pure (binop op a b)
  | .un op f => do
    let a ← Clo.run x σ f
    pure (unop op a)
  | .dotIdx cs is => do
    let xs ← gather x is
    npDotC cs xs
  | .dotFns cs fs => do
    let xs ← CloList.run x σ fs
    npDotC cs xs
  | .sumIdx is => do
    let xs ← gather x is
    pure (sum xs)
  | .sumFns fs => do
    let xs ← CloList.run x σ fs
    pure (pySum xs)
  | .dotVV lf rf => do
    let xs ← VClo.run x σ lf
    let ys ← VClo.run x σ rf
    npDot xs ys
  | .norm vf => do
    let xs ← VClo.run x σ vf
    pure (unop .sqrt (dotp xs xs))              -- np.linalg.norm(v) = sqrt(dot(v, v))
  | .sumAbs vf => do
    let xs ← VClo.run x σ vf
    pure (sum (xs.map (unop .abs)))
  | .quad vf q => do
    let xs ← VClo.run x σ vf
    npQuad q xs
  | .sqrtSumSq fs => do
    let xs ← CloList.run x σ fs
    pure (unop .sqrt (pySum (xs.map fun a => mul a a)))
  | .powSumIdx is k => do
    let xs ← gather x is
    pure (sum (xs.map fun a => NumAlg.pow a (ofRat k)))
  | .unSumIdx is op => do
    let xs ← gather x is
    pure (sum (xs.map (unop op.toUn)))
def VClo.run (x : List α) (σ : Nat → α) : VClo → Except CErr (List α)
  | .gather is => gather x is
  | .fns fs => CloList.run x σ fs
def CloList.run (x : List α) (σ : Nat → α) : CloList → Except CErr (List α)
  | .nil => .ok []
  | .cons c t => do
    let a ← Clo.run x σ c
    let r ← CloList.run x σ t
    pure (a :: r)
end

/-! ### the recursive builder `_build_evaluator` -/

/-- `var_indices[v.name]` -/
def lookupIdx (idx : String → Option Nat) (v : Var) : Except CErr Nat :=
  match idx v.name with
  | some i => .ok i
  | none => .error (.keyError v.name)

/-- `np.array([var_indices[v.name] for v in vars])` -/
def lookupIdxs (idx : String → Option Nat) : List Var → Except CErr (List Nat)
  | [] => .ok []
  | v :: t => do
    let i ← lookupIdx idx v
    let r ← lookupIdxs idx t
    pure (i :: r)

/-- `[_build_evaluator(v, var_indices) for row in mat._variables for v in row]` (Variables only) -/
def compileVars (idx : String → Option Nat) : List Var → Except CErr CloList
  | [] => .ok .nil
  | v :: t => do
    let i ← lookupIdx idx v
    let r ← compileVars idx t
    pure (.cons (.idx i) r)

mutual
/-- `_build_evaluator(expr, var_indices)` -/
def compile (idx : String → Option Nat) : Expr → Except CErr Clo
  | .const c => .ok (.const c)
  | .param p => .ok (.param p)
  | .var v => do
    let i ← lookupIdx idx v
    pure (.idx i)
  | .linComb cs v => do
    -- `isinstance(expr.vector, VectorVariable)` → index array, else element closures
    let vf ← compileVec idx v
    match vf with
    | .gather is => pure (.dotIdx cs is)
    | .fns fs => pure (.dotFns cs fs)
  | .vecSum v => do
    let is ← lookupIdxs idx v.vars
    pure (.sumIdx is)
  | .exprSum es => do
    let fs ← compileList idx es
    pure (.sumFns fs)
  | .dot l r => do
    let lf ← compileVec idx l
    let rf ← compileVec idx r
    pure (.dotVV lf rf)
  | .l2 v => do
    let vf ← compileVec idx v
    pure (.norm vf)
  | .l1 v => do
    let vf ← compileVec idx v
    pure (.sumAbs vf)
  | .quad v q => do
    let vf ← compileVec idx v
    pure (.quad vf q)
  | .matSumV m => do
    let fs ← compileVars idx m.flat
    pure (.sumFns fs)
  | .matSumE es => do
    let fs ← compileList idx es
    pure (.sumFns fs)
  | .frob m => do
    let fs ← compileVars idx m.flat
    pure (.sqrtSumSq fs)
  | .powSum v k => do
    let is ← lookupIdxs idx v.vars
    pure (.powSumIdx is k)
  | .unSum v op => do
    let is ← lookupIdxs idx v.vars
    pure (.unSumIdx is op)
  | .bin op l r => do
    let lf ← compile idx l
    let rf ← compile idx r
    pure (.bin op lf rf)
  | .un op a => do
    let f ← compile idx a
    pure (.un op f)
/-- `_build_vector_evaluator(vec, var_indices)` -/
def compileVec (idx : String → Option Nat) : Vec → Except CErr VClo
  | .vars v => do
    let is ← lookupIdxs idx v.vars
    pure (.gather is)
  | .exprs es => do
    let fs ← compileList idx es
    pure (.fns fs)
def compileList (idx : String → Option Nat) : ExprList → Except CErr CloList
  | .nil => .ok .nil
  | .cons e t => do
    let c ← compile idx e
    let r ← compileList idx t
    pure (.cons c r)
end

/-! ### the explicit-stack builder `_build_evaluator_iterative` -/

/-- one element of the "build non-recursive" loops of the iterative builder:
    `Variable` → index closure, `Constant` → constant closure, anything else → `_build_evaluator` -/
def elemIter (idx : String → Option Nat) : Expr → Except CErr Clo
  | .var v => do
    let i ← lookupIdx idx v
    pure (.idx i)
  | .const c => .ok (.const c)
  | e => compile idx e

def elemsIter (idx : String → Option Nat) : ExprList → Except CErr CloList
  | .nil => .ok .nil
  | .cons e t => do
    let c ← elemIter idx e
    let r ← elemsIter idx t
    pure (.cons c r)

structure CSt where
  stack : List (Expr × Nat)   -- head = top of the Python list `stack` (its last element)
  res : List Clo              -- head = top of `result_stack`
  deriving Inhabited

/-- `result_stack.append(r); continue` -/
def CSt.push (rest : List (Expr × Nat)) (res : List Clo) (r : Except CErr Clo) : Except CErr CSt :=
  match r with
  | .ok c => .ok ⟨rest, c :: res⟩
  | .error e => .error e

/-- one iteration of `while stack:` -/
def cstep (idx : String → Option Nat) (s : CSt) : Except CErr CSt :=
  match s.stack with
  | [] => .ok s
  | (node, phase) :: rest =>
    match node with
    | .const c => CSt.push rest s.res (.ok (.const c))
    | .param p => CSt.push rest s.res (.ok (.param p))
    | .var v => CSt.push rest s.res (do let i ← lookupIdx idx v; pure (.idx i))
    | .linComb cs (.vars vv) =>
      CSt.push rest s.res (do let is ← lookupIdxs idx vv.vars; pure (.dotIdx cs is))
    | .linComb cs (.exprs es) =>
      CSt.push rest s.res (do let fs ← elemsIter idx es; pure (.dotFns cs fs))
    | .vecSum v => CSt.push rest s.res (do let is ← lookupIdxs idx v.vars; pure (.sumIdx is))
    | .exprSum es => CSt.push rest s.res (do let fs ← elemsIter idx es; pure (.sumFns fs))
    | .dot l r =>
      CSt.push rest s.res (do
        let lf ← compileVec idx l
        let rf ← compileVec idx r
        pure (.dotVV lf rf))
    | .l2 v => CSt.push rest s.res (do let vf ← compileVec idx v; pure (.norm vf))
    | .l1 v => CSt.push rest s.res (do let vf ← compileVec idx v; pure (.sumAbs vf))
    | .quad v q => CSt.push rest s.res (do let vf ← compileVec idx v; pure (.quad vf q))
    -- "not deeply nested, so the recursive builder handles them exactly as on shallow trees"
    | .powSum v k => CSt.push rest s.res (compile idx (.powSum v k))
    | .unSum v op => CSt.push rest s.res (compile idx (.unSum v op))
    | .matSumV m => CSt.push rest s.res (compile idx (.matSumV m))
    | .matSumE es => CSt.push rest s.res (compile idx (.matSumE es))
    | .frob m => CSt.push rest s.res (compile idx (.frob m))
    | .bin op l r =>
      if phase == 0 then
        -- stack.append((node, 1)); stack.append(right); stack.append(left)
        .ok ⟨(l, 0) :: (r, 0) :: (.bin op l r, 1) :: rest, s.res⟩
      else
        -- right_fn = result_stack.pop(); left_fn = result_stack.pop()
        match s.res with
        | rf :: lf :: rs => .ok ⟨rest, .bin op lf rf :: rs⟩
        | _ => .error .popEmpty
    | .un op a =>
      if phase == 0 then .ok ⟨(a, 0) :: (.un op a, 1) :: rest, s.res⟩
      else
        match s.res with
        | f :: rs => .ok ⟨rest, .un op f :: rs⟩
        | _ => .error .popEmpty

def crun (idx : String → Option Nat) : Nat → CSt → Except CErr CSt
  | 0, s => .ok s
  | n + 1, s =>
    match cstep idx s with
    | .ok s' => crun idx n s'
    | .error e => .error e

/-- `_build_evaluator_iterative(expr, var_indices)`; `fuel` bounds the number of loop
    iterations (`.error .fuel` when it does not suffice — never with `fuel ≥ 2 * e.size`). -/
def compileIter (fuel : Nat) (idx : String → Option Nat) (e : Expr) : Except CErr Clo :=
  match crun idx fuel ⟨[(e, 0)], []⟩ with
  | .error err => .error err
  | .ok ⟨[], c :: _⟩ => .ok c           -- return result_stack[-1]
  | .ok ⟨[], []⟩ => .error .emptyResult
  | .ok ⟨_ :: _, _⟩ => .error .fuel

/-! ### `_estimate_tree_depth` (compiler.py version), the switch, the entry points -/

/-- left-spine estimate: BinaryOp → left, UnaryOp → operand, DotProduct counts 1 and stops
    (its `left` is a vector, not an Expression), every other class stops. -/
def depthC : Expr → Nat
  | .bin _ l _ => depthC l + 1
  | .un _ a => depthC a + 1
  | .dot _ _ => 1
  | _ => 0

/-- `_compile_cached` without the cache: `depth >= threshold` → explicit-stack builder -/
def compileSwitch (thr : Nat) (idx : String → Option Nat) (e : Expr) : Except CErr Clo :=
  if depthC e ≥ thr then compileIter (2 * e.size) idx e else compile idx e

/-- `{var.name: i for i, var in enumerate(variables)}`: a later duplicate name overwrites -/
def idxOfAux : List Var → Nat → String → Option Nat
  | [], _, _ => none
  | v :: t, i, n =>
    match idxOfAux t (i + 1) n with
    | some j => some j
    | none => if v.name == n then some i else none

def idxOf (V : List Var) (n : String) : Option Nat := idxOfAux V 0 n

/-- `compile_expression(expr, variables)`: a bare Parameter bypasses the cache (and the switch) -/
def compileExpression (thr : Nat) (V : List Var) (e : Expr) : Except CErr Clo :=
  match e with
  | .param p => compile (idxOf V) (.param p)
  | e => compileSwitch thr (idxOf V) e

/-- `dict_fn(values)` of `compile_to_dict_function`: `np.array([values[name] for name in var_names])`
    (`KeyError` for a missing name) then the array function -/
def dictArgs (values : String → Option α) : List Var → Except CErr (List α)
  | [] => .ok []
  | v :: t =>
    match values v.name with
    | some a => do
      let r ← dictArgs values t
      pure (a :: r)
    | none => .error (.keyError v.name)

def dictFn (c : Clo) (V : List Var) (values : String → Option α) (σ : Nat → α) : Except CErr α := do
  let x ← dictArgs values V
  Clo.run x σ c

/-- `CompiledExpression.value(x)`: `float(np.asarray(self._value_fn(x)).item())` — the value
    function applied to `x` (the conversion is the identity on scalars) -/
def compiledValue (c : Clo) (x : List α) (σ : Nat → α) : Except CErr α := Clo.run x σ c

end Optyx.Py
