/-
  Optyx.Py.VarsSupport — the container idiom of the `get_variables` methods as the translator (harness/py2lean_vars.py →
  `Generated/VarsStep.lean`) renders it: `VectorExpression.get_variables` / `MatrixExpression.get_variables` accumulate the
  contributions of their elements in order.
-/
import Optyx.Py.ProblemVars

namespace Optyx.Py.Api
open Optyx

/-- `result = set(); for expr in self._expressions: result.update(expr.get_variables())` -/
def listVarsRec (recE : Expr → List Var) : ExprList → List Var
  | .nil => []
  | .cons e t => recE e ++ listVarsRec recE t

end Optyx.Py.Api
