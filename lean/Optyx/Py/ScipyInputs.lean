/-
  Optyx.Py.ScipyInputs — executable model of `solvers/scipy_solver.py::_build_solver_cache`
  and of the wrappers `solve_scipy` puts around the cached callables: *what SciPy is handed*.

  The model is table driven.  Which library compiler produces each callable, whether the
  objective is negated under `maximize`, and the (type, sign of fun, sign of jac) row of each
  constraint sense are NOT written here: they are `Optyx.Generated.glue*`, regenerated from the
  source of `_build_solver_cache` / `solve_scipy` on every run (`harness/gen_tables.py`,
  `gen_solver_glue`).  The compilers themselves are the models of C01 (`compileExpression`) and
  C03 (`compileJacobian`).
  Core Lean only.
-/
import Optyx.Py.Compile
import Optyx.Py.Jacobian
import Optyx.Py.Constraint
import Optyx.Generated.SolverGlue

namespace Optyx.Py.Glue
open Optyx Optyx.Py Optyx.Py.Jac Optyx.Py.Api Optyx.Generated NumAlg

inductive ObjSense | minimize | maximize
  deriving DecidableEq, Repr, Inhabited

/-- `Problem` as far as `_build_solver_cache` reads it: sense, objective, `(c.sense, c.expr)` of
    every constraint.  (The ordered variable list is an argument, as in the source.) -/
structure Problem where
  sense : ObjSense
  objective : Option Expr
  constraints : List (Sense × Expr)
  deriving Inhabited

inductive GErr
  | noObjective                 -- NoObjectiveError
  | compile (e : CErr)          -- raised by compile_expression
  | jac (e : JErr)              -- raised by compile_jacobian
  | glue                        -- the regenerated table names a compiler this model does not know
  deriving Repr, Inhabited

/-- a scalar-valued cached callable, built by the compiler the source names -/
def scalarFrom (src : GlueSrc) (thr : Nat) (V : List Var) (e : Expr) : Except GErr Clo :=
  match src with
  | .compileExpression =>
    match compileExpression thr V e with
    | .ok c => .ok c
    | .error err => .error (.compile err)
  | _ => .error .glue

/-- a row-valued cached callable (`compile_jacobian([e], variables)`) -/
def rowFrom (src : GlueSrc) (V : List Var) (e : Expr) : Except GErr JacClo :=
  match src with
  | .compileJacobian1 =>
    match compileJacobian [e] V with
    | .ok c => .ok c
    | .error err => .error (.jac err)
  | _ => .error .glue

/-- `obj_expr = problem.objective; if problem.sense == "maximize": obj_expr = -obj_expr` -/
def solverObjective (s : ObjSense) (obj : Expr) : Expr :=
  match s with
  | .maximize => if glueNegateOnMaximize then .un .neg obj else obj
  | .minimize => obj

/-- the row of the regenerated `if c.sense == … elif … else` chain taken for a sense -/
def conRow (s : Sense) : GlueCon :=
  match glueConTable.find? (fun r => r.sense == s.show) with
  | some r => r
  | none => (glueConTable.find? (fun r => r.sense == "else")).getD ⟨"else", "eq", false, false⟩

/-- one entry of `cache["scipy_constraints"]` -/
structure ConDict where
  sense : Sense
  fn : Clo
  jac : JacClo
  deriving Inhabited

def ConDict.type (d : ConDict) : String := (conRow d.sense).type

/-- `"fun": lambda x, fn=c_fn: [-]float(fn(x))` -/
def ConDict.fun {α : Type} [NumAlg α] (d : ConDict) (x : List α) (σ : Nat → α) : Except CErr α :=
  match Clo.run x σ d.fn with
  | .ok v => .ok (if (conRow d.sense).funNeg then neg v else v)
  | .error e => .error e

/-- `"jac": lambda x, jfn=c_jac_fn: [-]jfn(x).flatten()` -/
def ConDict.jacobian {α : Type} [NumAlg α] [DerivAlg α] (d : ConDict) (x : List α) (σ : Nat → α) : List α :=
  let row := (d.jac.run x σ).flatten
  if (conRow d.sense).jacNeg then row.map neg else row

/-- the compiled part of the cache (`bounds` are re-read from the variables on every solve) -/
structure Cache where
  objFn : Clo
  gradFn : JacClo
  cons : List ConDict
  deriving Inhabited

def buildCons (thr : Nat) (V : List Var) : List (Sense × Expr) → Except GErr (List ConDict)
  | [] => .ok []
  | (s, e) :: t =>
    match scalarFrom glueConFn thr V e with
    | .error err => .error err
    | .ok f =>
      match rowFrom glueConJac V e with
      | .error err => .error err
      | .ok j =>
        match buildCons thr V t with
        | .error err => .error err
        | .ok ds => .ok (⟨s, f, j⟩ :: ds)

/-- `_build_solver_cache(problem, variables)` -/
def buildSolverCache (thr : Nat) (P : Problem) (V : List Var) : Except GErr Cache :=
  match P.objective with
  | none => .error .noObjective
  | some obj =>
    let o := solverObjective P.sense obj
    match scalarFrom glueObjFn thr V o with
    | .error err => .error err
    | .ok f =>
      match rowFrom glueGradFn V o with
      | .error err => .error err
      | .ok g =>
        match buildCons thr V P.constraints with
        | .error err => .error err
        | .ok ds => .ok ⟨f, g, ds⟩

/-- the Hessian callable (`compile_hessian(obj_expr, variables)`, built lazily by `solve_scipy` for the methods in
    `HESSIAN_METHODS`) -/
def hessianFrom (src : GlueSrc) (V : List Var) (e : Expr) : Except GErr HessClo :=
  match src with
  | .compileHessian =>
    match compileHessian e V with
    | .ok c => .ok c
    | .error err => .error (.jac err)
  | _ => .error .glue

/-- `obj_expr = problem.objective; if problem.sense == "maximize": obj_expr = -obj_expr` (Hessian block) -/
def solverHessObjective (s : ObjSense) (obj : Expr) : Expr :=
  match s with
  | .maximize => if glueHessNegateOnMaximize then .un .neg obj else obj
  | .minimize => obj

/-- `cache["hess_fn"]` -/
def buildHessian (P : Problem) (V : List Var) : Except GErr HessClo :=
  match P.objective with
  | none => .error .noObjective
  | some obj => hessianFrom glueHessFn V (solverHessObjective P.sense obj)

/-- `objective(x) = float(obj_fn(x))` -/
def Cache.objective {α : Type} [NumAlg α] (c : Cache) (x : List α) (σ : Nat → α) : Except CErr α :=
  Clo.run x σ c.objFn

/-- `gradient(x) = grad_fn(x).flatten()` -/
def Cache.gradient {α : Type} [NumAlg α] [DerivAlg α] (c : Cache) (x : List α) (σ : Nat → α) : List α :=
  (c.gradFn.run x σ).flatten

/-- `obj_value = float(result.fun); if problem.sense == "maximize": obj_value = -obj_value` -/
def reportedObjective {α : Type} [NumAlg α] (s : ObjSense) (resultFun : α) : α :=
  match s with
  | .maximize => if glueObjValueNegatedBack then neg resultFun else resultFun
  | .minimize => resultFun

end Optyx.Py.Glue
