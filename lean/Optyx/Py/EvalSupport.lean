/-
  Optyx.Py.EvalSupport — the element-evaluation idioms of the `evaluate` methods as the translator
  (harness/py2lean_eval.py → `Generated/EvalStep.lean`) renders them, with `<child>.evaluate(values)` as a parameter.
-/
import Optyx.Py.Eval

namespace Optyx.Py
open Optyx

variable {α : Type}

/-- `[v.evaluate(values) for v in vector._variables]` (left to right; the first error wins) -/
def evalVarsRec (recE : Expr → Except CErr α) : List Var → Except CErr (List α)
  | [] => .ok []
  | v :: t => do
    let a ← recE (.var v)
    let r ← evalVarsRec recE t
    pure (a :: r)

/-- `[e.evaluate(values) for e in vector._expressions]` -/
def evalListRec (recE : Expr → Except CErr α) : ExprList → Except CErr (List α)
  | .nil => .ok []
  | .cons e t => do
    let a ← recE e
    let r ← evalListRec recE t
    pure (a :: r)

/-- the helper iterators `_iter_vector` / `_iter_left` / `_iter_right`: the Variables of a VectorVariable operand, the element
    expressions of a VectorExpression operand -/
def evalVecRec (recE : Expr → Except CErr α) : Vec → Except CErr (List α)
  | .vars v => evalVarsRec recE v.vars
  | .exprs es => evalListRec recE es

end Optyx.Py
