/-
  Optyx.Py.Sanitize — model of `optyx.core.compiler._sanitize_derivatives` and of the
  special-value arithmetic (NaN, ±Inf, ±0) the derivative closures run into at singular points.

  * `DerivAlg α`  : the three NumPy primitives the derivative closures use beyond the number
                    algebra `NumAlg`: `np.sign`, `np.isfinite`, one entry of `np.nan_to_num`.
  * `sanitize`    : `_sanitize_derivatives` on a 1-D array, `sanitize2` on a 2-D array
                    (all-finite short-cut returns the array itself, otherwise entrywise nan_to_num).
  * `SV α`        : special-value domain  nan | ±inf | ±0 | fin a  over a carrier `α` of finite
                    non-zero numbers, with the IEEE-754 / C99 rules of every operation of `NumAlg`
                    (the rules that matter for the closure tables: ÷ by zero, 0/0, sqrt of a negative,
                    log 0, powers at 0, sign).  `SV Float` is executable (the driver runs the closures
                    over it, so the rule tables below are tied to NumPy by the C19 correspondence run);
                    `SV ℝ` (instance in `Lemmas/JacSV.lean`) is what the C19 theorems talk about.
  Core Lean only.
-/
import Optyx.Alg
import Optyx.Generated.Tables

namespace Optyx.Py
open Optyx

/-- NumPy primitives used by the derivative closures in addition to `NumAlg`. -/
class DerivAlg (α : Type) where
  /-- `np.sign` -/
  sign : α → α
  /-- `np.isfinite` -/
  isFinite : α → Bool
  /-- one entry of `np.nan_to_num(arr, nan=0.0, posinf=_LARGE_GRADIENT, neginf=-_LARGE_GRADIENT)` -/
  nanToNum : α → α

section
variable {α : Type} [DerivAlg α]

/-- `_sanitize_derivatives(arr)` for a 1-D array:
    `if np.all(np.isfinite(arr)): return arr` else `np.nan_to_num(...)`. -/
def sanitize (arr : List α) : List α :=
  if arr.all DerivAlg.isFinite then arr else arr.map DerivAlg.nanToNum

/-- `_sanitize_derivatives(arr)` for a 2-D array. -/
def sanitize2 (m : List (List α)) : List (List α) :=
  if m.all (fun r => r.all DerivAlg.isFinite) then m else m.map (fun r => r.map DerivAlg.nanToNum)
end

/-- `_LARGE_GRADIENT` (regenerated from the source). -/
def largeGradient : Rat := Optyx.Generated.largeGradient

/-! ### doubles -/

instance : DerivAlg Float where
  sign x := if x > 0 then 1.0 else if x < 0 then -1.0 else if x.isNaN then x else 0.0
  isFinite x := x.isFinite
  nanToNum x :=
    if x.isNaN then 0.0
    else if x.isInf then (if x > 0 then ratToFloat largeGradient else - ratToFloat largeGradient)
    else x

/-! ### the special-value domain -/

/-- class of a carrier value: the carrier of `SV` is meant to hold finite non-zero numbers, but
    carrier arithmetic may leave that set (`a - a = 0`; for doubles also overflow / libm NaN). -/
inductive Cls | neg | zero | pos | nan | pinf | ninf
  deriving DecidableEq, Repr, Inhabited

/-- what `SV` needs to know about its carrier -/
class Carrier (α : Type) where
  cls : α → Cls
  /-- the value is an integer -/
  isInt : α → Bool
  /-- the value is an odd integer -/
  isOddInt : α → Bool

inductive SV (α : Type)
  | nan
  | inf (neg : Bool)        -- `inf true` = −∞
  | zero (neg : Bool)       -- `zero true` = −0.0
  | fin (a : α)             -- finite, non-zero
  deriving Repr, Inhabited

namespace SV
variable {α : Type} [NumAlg α] [Carrier α]
open NumAlg Carrier

/-- re-classify the result of carrier arithmetic -/
def mk (a : α) : SV α :=
  match cls a with
  | .zero => zero false
  | .nan => nan
  | .pinf => inf false
  | .ninf => inf true
  | .neg | .pos => fin a

def isNeg (a : α) : Bool := cls a == Cls.neg

def one : SV α := mk (ofRat 1)

def neg : SV α → SV α
  | nan => nan
  | inf s => inf (!s)
  | zero s => zero (!s)
  | fin a => fin (NumAlg.neg a)

def add : SV α → SV α → SV α
  | nan, _ | _, nan => nan
  | inf s, inf t => if s == t then inf s else nan
  | inf s, _ => inf s
  | _, inf t => inf t
  | zero s, zero t => zero (s && t)
  | zero _, fin b => fin b
  | fin a, zero _ => fin a
  | fin a, fin b => mk (NumAlg.add a b)

def sub : SV α → SV α → SV α
  | nan, _ | _, nan => nan
  | inf s, inf t => if s == t then nan else inf s
  | inf s, _ => inf s
  | _, inf t => inf (!t)
  | zero s, zero t => zero (s && !t)
  | zero _, fin b => fin (NumAlg.neg b)
  | fin a, zero _ => fin a
  | fin a, fin b => mk (NumAlg.sub a b)

def mul : SV α → SV α → SV α
  | nan, _ | _, nan => nan
  | inf _, zero _ | zero _, inf _ => nan
  | inf s, inf t => inf (s != t)
  | inf s, fin b => inf (s != isNeg b)
  | fin a, inf t => inf (isNeg a != t)
  | zero s, zero t => zero (s != t)
  | zero s, fin b => zero (s != isNeg b)
  | fin a, zero t => zero (isNeg a != t)
  | fin a, fin b => mk (NumAlg.mul a b)

def div : SV α → SV α → SV α
  | nan, _ | _, nan => nan
  | inf _, inf _ => nan
  | inf s, zero t => inf (s != t)
  | inf s, fin b => inf (s != isNeg b)
  | zero s, inf t => zero (s != t)
  | fin a, inf t => zero (isNeg a != t)
  | zero _, zero _ => nan
  | zero s, fin b => zero (s != isNeg b)
  | fin a, zero t => inf (isNeg a != t)
  | fin a, fin b => mk (NumAlg.div a b)

/-- `|a| > 1` on the carrier -/
def absGtOne (a : α) : Bool := cls (NumAlg.sub (NumAlg.fn .abs a) (ofRat 1)) == Cls.pos
/-- `|a| < 1` on the carrier -/
def absLtOne (a : α) : Bool := cls (NumAlg.sub (NumAlg.fn .abs a) (ofRat 1)) == Cls.neg
/-- `a < 1` on the carrier -/
def ltOne (a : α) : Bool := cls (NumAlg.sub a (ofRat 1)) == Cls.neg
/-- `a = 1` / `a = -1` on the carrier -/
def isOne (a : α) : Bool := cls (NumAlg.sub a (ofRat 1)) == Cls.zero
def isMinusOne (a : α) : Bool := cls (NumAlg.add a (ofRat 1)) == Cls.zero

/-- `np.sign` -/
def sign : SV α → SV α
  | nan => nan
  | inf s => fin (ofRat (if s then -1 else 1))
  | zero _ => zero false
  | fin a => fin (ofRat (if isNeg a then -1 else 1))

/-- the IEEE / C99 special cases of the elementary functions of `UnaryOp._OPS` (`neg` excluded) -/
def fn (op : UnOp) : SV α → SV α
  | nan => nan
  | inf s =>
    match op with
    | .neg => inf (!s)
    | .abs => inf false
    | .exp => if s then zero false else inf false
    | .log | .log2 | .log10 | .sqrt | .acosh => if s then nan else inf false
    | .tanh => fin (ofRat (if s then -1 else 1))
    | .sinh | .asinh => inf s
    | .cosh => inf false
    | .atan =>
      let h : α := NumAlg.mul (ofRat 2) (NumAlg.fn .atan (ofRat 1))   -- π/2
      fin (if s then NumAlg.neg h else h)
    | .sin | .cos | .tan | .asin | .acos | .atanh => nan
  | zero s =>
    match op with
    | .neg => zero (!s)
    | .abs => zero false
    | .sin | .tan | .sqrt | .tanh | .sinh | .asin | .atan | .asinh | .atanh => zero s
    | .cos | .exp | .cosh => one
    | .log | .log2 | .log10 => inf true
    | .acos => mk (NumAlg.fn .acos NumAlg.zero)
    | .acosh => nan
  | fin a =>
    match op with
    | .neg => fin (NumAlg.neg a)
    | .abs => fin (NumAlg.fn .abs a)
    | .log | .log2 | .log10 | .sqrt => if isNeg a then nan else mk (NumAlg.fn op a)
    | .asin | .acos => if absGtOne a then nan else mk (NumAlg.fn op a)
    | .acosh => if ltOne a then nan else mk (NumAlg.fn op a)
    | .atanh =>
      if absGtOne a then nan
      else if isOne a then inf false
      else if isMinusOne a then inf true
      else mk (NumAlg.fn op a)
    | .sin | .cos | .tan | .exp | .tanh | .sinh | .cosh | .atan | .asinh => mk (NumAlg.fn op a)

/-- sign class of a non-NaN special value w.r.t. 0 -/
def isNegative : SV α → Bool
  | nan => false
  | inf s => s
  | zero s => s
  | fin a => isNeg a

/-- `|x| < 1` (zeros included), `|x| > 1` (infinities included) -/
def magLtOne : SV α → Bool
  | zero _ => true
  | fin a => absLtOne a
  | _ => false
def magGtOne : SV α → Bool
  | inf _ => true
  | fin a => absGtOne a
  | _ => false

def isOddIntSV : SV α → Bool
  | fin b => isOddInt b
  | _ => false

/-- C99 `pow` (NumPy's `np.power` on doubles) -/
def pow (x y : SV α) : SV α :=
  match x, y with
  | _, zero _ => one                                   -- pow(x, ±0) = 1, even for NaN
  | nan, _ => nan
  | fin a, nan => if isOne a then one else nan          -- pow(1, NaN) = 1
  | _, nan => nan
  | x, inf t =>                                          -- y = ±∞
    match x with
    | fin a =>
      if isOne a || isMinusOne a then one
      else if absLtOne a then (if t then inf false else zero false)
      else (if t then zero false else inf false)
    | zero _ => if t then inf false else zero false
    | _ => if t then zero false else inf false           -- x = ±∞
  | inf false, y => if isNegative y then zero false else inf false
  | inf true, y =>
    if isOddIntSV y then (if isNegative y then zero true else inf true)
    else (if isNegative y then zero false else inf false)
  | zero s, y =>
    if isOddIntSV y then (if isNegative y then inf s else zero s)
    else (if isNegative y then inf false else zero false)
  | fin a, fin b =>
    if isOne a then one
    else if isNeg a && !isInt b then nan
    else mk (NumAlg.pow a b)

instance : NumAlg (SV α) where
  zero := SV.zero false
  add := add
  sub := sub
  mul := mul
  div := div
  neg := neg
  pow := pow
  ofRat q := mk (ofRat q)
  ln2 := mk NumAlg.ln2
  ln10 := mk NumAlg.ln10
  fn := fn

instance : DerivAlg (SV α) where
  sign := sign
  isFinite
    | nan => false
    | inf _ => false
    | _ => true
  nanToNum
    | nan => zero false
    | inf s => fin (if s then NumAlg.neg (ofRat largeGradient) else ofRat largeGradient)
    | x => x

end SV

/-! ### `SV Float`: executable, used by the driver for the singular-point correspondence -/

instance : Carrier Float where
  cls a :=
    if a.isNaN then .nan
    else if a.isInf then (if a > 0 then .pinf else .ninf)
    else if a == 0 then .zero
    else if a < 0 then .neg else .pos
  isInt a := a.isFinite && a.floor == a
  isOddInt a := a.isFinite && a.floor == a && (a / 2).floor != a / 2

/-- embed a double (with its NaN / ±Inf / ±0) -/
def SV.ofFloat (x : Float) : SV Float :=
  if x.isNaN then .nan
  else if x.isInf then .inf (x < 0)
  else if x == 0 then .zero (1.0 / x < 0)
  else .fin x

def SV.toFloat : SV Float → Float
  | .nan => 0.0 / 0.0
  | .inf s => if s then -1.0 / 0.0 else 1.0 / 0.0
  | .zero s => if s then -0.0 else 0.0
  | .fin a => a

end Optyx.Py
