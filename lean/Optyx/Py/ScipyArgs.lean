/-
  Optyx.Py.ScipyArgs — executable model of how `solve_scipy` / `Problem.solve` assemble the call
  to `scipy.optimize.minimize` (the solver itself is a parameter):

    initialPoint     `_compute_initial_point` (interior start from the declared bounds)
    autoSelect       `Problem._auto_select_method`
    route            `Problem.solve` dispatch (LP path vs NLP path)
    gate             which optional arguments are passed for a method (jac / hess / bounds),
                     from the regenerated method sets of `solve_scipy`
-/
import Optyx.Generated.InitPoint
import Optyx.Syntax
import Optyx.Generated.Tables

namespace Optyx.Py

/-- one coordinate of `_compute_initial_point` (None = unbounded on that side): the four branches are
    `Generated.initBoth / initLower / initUpper / initFree`, translated expression by expression from the source
    (with the exact values of the doubles `1e-4` and `0.01`) on every run -/
def initialCoord (lb ub : Option Rat) : Rat :=
  match lb, ub with
  | some l, some u => Optyx.Generated.initBoth l u
  | some l, none => Optyx.Generated.initLower l
  | none, some u => Optyx.Generated.initUpper u
  | none, none => Optyx.Generated.initFree

def initialPoint (bounds : List (Option Rat × Option Rat)) : List Rat :=
  bounds.map fun b => initialCoord b.1 b.2

/-- degree facts `_auto_select_method` looks at: `compute_degree` of objective and constraints -/
def needsRobust (d : Option Nat) : Bool :=
  match d with
  | none => true
  | some k => decide (2 < k)

/-- `Problem._auto_select_method` -/
def autoSelect (objDegree : Option Nat) (conDegrees : List (Option Nat)) : String :=
  if conDegrees.isEmpty then "L-BFGS-B"
  else if needsRobust objDegree then "trust-constr"
  else if conDegrees.any needsRobust then "trust-constr"
  else "SLSQP"

inductive Route | lp (method : Option String) | nlp (method : String)
  deriving DecidableEq, Repr

/-- `Problem.solve` dispatch -/
def route (method : String) (isLinear : Bool) (objDegree : Option Nat) (conDegrees : List (Option Nat)) : Route :=
  if method == "auto" then
    if isLinear then .lp none else .nlp (autoSelect objDegree conDegrees)
  else if method == "linprog" then .lp none
  else if method == "highs" || method == "highs-ds" || method == "highs-ipm" then .lp (some method)
  else .nlp method

structure Gate where
  passJac : Bool
  passHess : Bool
  passBounds : Bool
  passConstraints : Bool
  deriving DecidableEq, Repr

/-- which optional arguments `solve_scipy` hands to `minimize` -/
def gate (method : String) (useHessian : Bool) (nBounds nConstraints : Nat) : Gate :=
  { passJac := !(Optyx.Generated.derivativeFreeMethods.contains method)
    passHess := useHessian && Optyx.Generated.hessianMethods.contains method
    passBounds := decide (0 < nBounds) && Optyx.Generated.boundsMethods.contains method
    passConstraints := decide (0 < nConstraints) }

end Optyx.Py
