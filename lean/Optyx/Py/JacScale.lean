/-
  Optyx.Py.JacScale — the helper shapes that `BinaryOp.jacobian_row` is built from (used by the
  regenerated `Generated/JacRow.lean` and by `Py/Jacobian.lean`).  Core Lean only.
-/
import Optyx.Syntax

namespace Optyx.Py
open Optyx

/-- `isinstance(e, Constant)` (a `Parameter` is not one) -/
def isConstE : Expr → Bool
  | .const _ => true
  | _ => false

/-- `e.value` of a `Constant` (0 otherwise: only read under `isConstE`) -/
def cstOf : Expr → Cst
  | .const c => c
  | _ => .rat 0

/-- `Constant(c * e.value) if isinstance(e, Constant) else BinaryOp(Constant(c), e, "*")`.
    A float product with `np.log(2.0)` / `np.log(10.0)` is not a rational: kept as a product
    (semantically the same number; outside the exact structural correspondence). -/
def scaleLeft (c : Cst) (e : Expr) : Expr :=
  match c, e with
  | .rat a, .const (.rat b) => .const (.rat (a * b))
  | _, _ => .bin .mul (.const c) e

/-- `Constant(c * e.value) if isinstance(e, Constant) else BinaryOp(e, Constant(c), "*")` -/
def scaleRight (c : Cst) (e : Expr) : Expr :=
  match c, e with
  | .rat a, .const (.rat b) => .const (.rat (a * b))
  | _, .const _ => .bin .mul (.const c) e
  | _, _ => .bin .mul e (.const c)

end Optyx.Py
