/-
  Optyx.Py.GradSupport — helpers the generated step functional of the differentiator
  (`Optyx.Generated.GradStep`) refers to; each is the meaning harness/py2lean.py gives to one idiom:

    vecD r v        the derivatives `gradient(elem, wrt)` of the elements of a vector operand
                    (`r` stands for the recursive call; the elements of a VectorVariable are its Variables)
    vecFind x v     `idx = None
                     if isinstance(v, VectorVariable):
                         for i, var in enumerate(v._variables):
                             if var.name == x: idx = i; break`
  `findName`, `hasName`, `countName`, `Vec.elems`, `qsym` (the other idioms) are in `Optyx.Py.Grad`.
-/
import Optyx.Py.Grad

namespace Optyx.Py
open Optyx

def vecD (r : Expr → Expr) : Vec → List Expr
  | .vars v => v.vars.map fun y => r (.var y)
  | .exprs es => es.toList.map r

def vecFind (x : String) : Vec → Option Nat
  | .vars v => findName x v.vars
  | .exprs _ => none

end Optyx.Py
