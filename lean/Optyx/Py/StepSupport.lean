/-
  Optyx.Py.StepSupport — the few hand-written helpers the generated *step functionals*
  (`Optyx.Generated.DegreeStep`, …) refer to.  Each is the meaning the translator
  (harness/py2lean.py) gives to one Python idiom it matches literally:

    cstNat c      `x = float(c); if not x.is_integer() or x < 0: return None; … int(x) …`
                  on a scalar constant (`ratNat` is the same on an exact rational)
    maxLoop r es a   `acc = a
                      for sub in es: d = r(sub); if d is None: return None; acc = max(acc, d)
                      return acc`
-/
import Optyx.Py.Degree

namespace Optyx.Py
open Optyx

def cstNat : Cst → Option Nat
  | .rat q => ratNat q
  | _ => none

def maxLoop (r : Expr → Deg) : List Expr → Nat → Deg
  | [], acc => some acc
  | e :: t, acc =>
    match r e with
    | none => none
    | some d => maxLoop r t (max acc d)

end Optyx.Py
