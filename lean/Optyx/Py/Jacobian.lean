/-
  Optyx.Py.Jacobian — executable model of the derivative *callables* of optyx:

    core/expressions.py   BinaryOp.jacobian_row
    core/vectors.py       VectorSum / DotProduct / LinearCombination / VectorPowerSum /
                          VectorUnarySum .jacobian_row        (every other class inherits `return None`)
    core/matrices.py      MatrixSum / QuadraticForm .jacobian_row
    core/autodiff.py      compute_jacobian, compute_hessian, _is_scaled_variable_pattern,
                          compile_jacobian (fast paths 0/1/2 + general), compile_hessian
    core/compiler.py      compile_gradient, _compile_vectorized_power_gradient,
                          _compile_vectorized_unary_gradient

  Conventions
  * `var in my_vars`, `dict[Variable]`  — `Variable.__hash__/__eq__` are by name: name look-ups;
    a dict built by successive insertion keeps the *last* value for a repeated key (`dictGet`).
  * `expr.right is var`                  — object identity = equality of the `Var` record (name, oid).
  * `self.left is self.right`            — identity of the VectorVariable objects = equal `oid`
                                           (same convention as `Py.dotRule`).
  * a compiled callable is a *tagged closure description* (`GradClo`, `JacClo`, `HessClo`): the tag is the
    `__name__` of the Python closure that is returned, `run` evaluates it over any number algebra.
  * the element closures of the general paths (`compile_expression(entry, variables)`) are modelled at
    their specification (C01): value `⟦entry⟧ (envOf V x) σ` with `σ` read at call time, and
    `KeyError` at *compile* time when the entry mentions a variable name that is not in `V`.
  * `run` assumes `x.length = V.length` (what the solvers pass); the `getD` defaults below are
    unreachable under that assumption.
  Core Lean only.
-/
import Optyx.Denote
import Optyx.Py.Grad
import Optyx.Py.Sanitize
import Optyx.Generated.JacRow

namespace Optyx.Py
open Optyx Optyx.Generated NumAlg

inductive JErr
  | keyError          -- a variable of the expression is missing from `variables`
  deriving DecidableEq, Repr, Inhabited

namespace Jac

/-- `d.get(x)` for `d = {k: v for (k, v) in kvs}` with `Variable` keys (hash / eq by name):
    the last inserted value for a name wins. -/
def dictGet {β : Type} (x : String) : List (Var × β) → Option β
  | [] => none
  | (k, v) :: t =>
    match dictGet x t with
    | some r => some r
    | none => if k.name == x then some v else none

/-- `{v.name: i for i, v in enumerate(variables)}.get(x)` -/
def nameIdx (x : String) : List Var → Option Nat
  | [] => none
  | v :: t =>
    match nameIdx x t with
    | some r => some (r + 1)
    | none => if v.name == x then some 0 else none

/-- `np.array([var_name_to_idx[v.name] for v in vector_vars])`; `none` = KeyError -/
def indicesOf (V : List Var) : List Var → Option (List Nat)
  | [] => some []
  | v :: t =>
    match nameIdx v.name V, indicesOf V t with
    | some i, some is => some (i :: is)
    | _, _ => none

/-- `len(indices) == n and np.array_equal(indices, np.arange(n))` -/
def isFull (idx : List Nat) (n : Nat) : Bool := idx.length == n && idx == List.range n

/-- `x[indices]` -/
def gather {α : Type} [NumAlg α] (x : List α) (idx : List Nat) : List α :=
  idx.map fun i => x.getD i NumAlg.zero

/-- `result[indices] = vals` (assignments in order: a repeated index keeps the last value) -/
def scatter {α : Type} : List α → List Nat → List α → List α
  | res, i :: is, v :: vs => scatter (res.set i v) is vs
  | res, _, _ => res

/-- `result[indices, indices] = vals` on a 2-D array -/
def scatterDiag {α : Type} : List (List α) → List Nat → List α → List (List α)
  | res, i :: is, v :: vs => scatterDiag (res.set i ((res.getD i []).set i v)) is vs
  | res, _, _ => res

def zeros {α : Type} [NumAlg α] (n : Nat) : List α := List.replicate n NumAlg.zero
def zeros2 {α : Type} [NumAlg α] (n : Nat) : List (List α) := List.replicate n (zeros n)

/-- `np.diag(v)` -/
def diagM {α : Type} [NumAlg α] (v : List α) : List (List α) :=
  (List.range v.length).map fun i =>
    (List.range v.length).map fun j => if i == j then v.getD i NumAlg.zero else NumAlg.zero

/-- the point `x` as an environment: variable name ↦ `x[var_indices[name]]` -/
def envOf {α : Type} [NumAlg α] (V : List Var) (x : List α) : String → α :=
  fun name =>
    match nameIdx name V with
    | some i => x.getD i NumAlg.zero
    | none => NumAlg.zero        -- unreachable after `namesOK` (the real code raised KeyError at compile time)

mutual
/-- every variable name of the expression is a key of `var_indices`
    (otherwise `compile_expression` raises `KeyError`) -/
def namesOK (V : List Var) : Expr → Bool
  | .const _ => true
  | .param _ => true
  | .var v => hasName v.name V
  | .bin _ l r => namesOK V l && namesOK V r
  | .un _ a => namesOK V a
  | .linComb _ v => namesOKVec V v
  | .vecSum v => v.vars.all fun y => hasName y.name V
  | .exprSum es => namesOKList V es
  | .dot l r => namesOKVec V l && namesOKVec V r
  | .l2 v => namesOKVec V v
  | .l1 v => namesOKVec V v
  | .quad v _ => namesOKVec V v
  | .powSum v _ => v.vars.all fun y => hasName y.name V
  | .unSum v _ => v.vars.all fun y => hasName y.name V
  | .matSumV m => m.flat.all fun y => hasName y.name V
  | .matSumE es => namesOKList V es
  | .frob m => m.flat.all fun y => hasName y.name V
def namesOKVec (V : List Var) : Vec → Bool
  | .vars v => v.vars.all fun y => hasName y.name V
  | .exprs es => namesOKList V es
def namesOKList (V : List Var) : ExprList → Bool
  | .nil => true
  | .cons e t => namesOK V e && namesOKList V t
end

end Jac
open Jac

/-! ## `jacobian_row` -/

/- the per-operator table of `VectorUnarySum.jacobian_row` (vectors.py; a table of its own in the
   source, *not* the one of `gradient_vector_unary_sum`) is `Optyx.Generated.unSumJacRow`,
   regenerated from the source before every build. -/

/- `scaleLeft` / `scaleRight` (the two list comprehensions of `BinaryOp.jacobian_row`) live in `Py/JacScale.lean`. -/

/-- `VectorPowerSum.jacobian_row`, one entry (`var` is the element of `variables`, not of the vector) -/
def powRowEntry (k : Rat) (var : Var) : Expr :=
  if k == 1 then Expr.c 1
  else if k == 2 then .bin .mul (Expr.c 2) (.var var)
  else .bin .mul (Expr.c k) (.bin .pow (.var var) (Expr.c (k - 1)))

/-- `DotProduct.jacobian_row` for two VectorVariable operands -/
def dotRow (V : List Var) (l r : VVar) : List Expr :=
  if l.oid == r.oid then
    -- var_to_elem = {v: 2*v for v in left_vars};  [var_to_elem.get(v, Constant(0.0)) for v in variables]
    let d : List (Var × Expr) := l.vars.map fun v => (v, Expr.bin .mul (Expr.c 2) (.var v))
    V.map fun v => (dictGet v.name d).getD (Expr.c 0)
  else
    let leftLookup : List (Var × Var) := l.vars.zip r.vars      -- left_vars[i] ↦ right_vars[i]
    let rightLookup : List (Var × Var) := r.vars.zip l.vars     -- right_vars[i] ↦ left_vars[i]
    V.map fun v =>
      match dictGet v.name leftLookup, dictGet v.name rightLookup with
      | some a, some b => .bin .add (.var a) (.var b)
      | some a, none => .var a
      | none, some b => .var b
      | none, none => Expr.c 0

/-- `e.jacobian_row(variables)`; `none` = the method returns `None` -/
def jacRow (V : List Var) : Expr → Option (List Expr)
  | .bin op l r =>
    -- `BinaryOp.jacobian_row`: the statement-by-statement translation of the source, regenerated on
    -- every run (`Generated/JacRow.lean`), applied to the rows of the two operands
    binJacRow op l r (jacRow V l) (jacRow V r)
  | .vecSum v => some (V.map fun x => if hasName x.name v.vars then Expr.c 1 else Expr.c 0)
  | .dot (.vars l) (.vars r) => some (dotRow V l r)
  | .linComb cs (.vars v) =>
    some (V.map fun x => Expr.c ((dictGet x.name (v.vars.zip cs)).getD 0))
  | .powSum v k => some (V.map fun x => if hasName x.name v.vars then powRowEntry k x else Expr.c 0)
  | .unSum v op =>
    some (V.map fun x => if hasName x.name v.vars then unSumJacRow op (.var x) else Expr.c 0)
  | .matSumV m => some (V.map fun x => Expr.c (countName x.name m.flat : Nat))
  | .quad (.vars v) q =>
    let qs := qsym q
    let d : List (Var × Nat) := v.vars.zipIdx
    some (V.map fun x =>
      match dictGet x.name d with
      | some i => .linComb (qs.getD i []) (.vars v)
      | none => Expr.c 0)
  | _ => none

/-! ## `compute_jacobian`, `compute_hessian` -/

def jacobianRow (V : List Var) (e : Expr) : List Expr :=
  match jacRow V e with
  | some row => row
  | none => V.map fun v => grad v e

def computeJacobian (es : List Expr) (V : List Var) : List (List Expr) :=
  es.map (jacobianRow V)

def computeHessian (e : Expr) (V : List Var) : List (List Expr) :=
  let g := V.map fun v => grad v e
  g.map fun gi => V.map fun vj => grad vj gi

/-! ## `_is_scaled_variable_pattern` -/

/-- one loop iteration: the scale of `Constant(c) * var` / `var * Constant(c)`, `var` *being* the
    declared variable object -/
def scaledEntry (e : Expr) (var : Var) : Option Cst :=
  match e with
  | .bin .mul (.const c) (.var w) => if w == var then some c else none
  | .bin .mul (.var w) (.const c) => if w == var then some c else none
  | _ => none

def scaledLoop : Option Cst → List (Expr × Var) → Option (Option Cst)
  | scale, [] => some scale
  | scale, (e, var) :: t =>
    match scaledEntry e var with
    | none => none
    | some c =>
      match scale with
      | none => scaledLoop (some c) t
      | some s => if s != c then none else scaledLoop (some s) t

def scaledPattern (row : List Expr) (V : List Var) : Option Cst :=
  if row.length != V.length then none
  else
    match scaledLoop none (row.zip V) with
    | some (some c) => some c
    | _ => none

/-! ## vectorised gradient closures (`compile_gradient` and its two helpers) -/

/-- body of the vectorised first-derivative closures of `_compile_vectorized_unary_gradient` -/
def vecUnBody {α : Type} [NumAlg α] [DerivAlg α] (op : VOp) (x : α) : α :=
  match op with
  | .sin => unop .cos x
  | .cos => NumAlg.neg (unop .sin x)
  | .exp => unop .exp x
  | .log => NumAlg.div (ofRat 1) x
  | .sqrt => NumAlg.div (ofRat (1/2)) (unop .sqrt x)
  | .sinh => unop .cosh x
  | .cosh => unop .sinh x
  | .tanh => NumAlg.sub (ofRat 1) (NumAlg.pow (unop .tanh x) (ofRat 2))
  | .tan => NumAlg.div (ofRat 1) (NumAlg.pow (unop .cos x) (ofRat 2))
  | .abs => DerivAlg.sign x

/-- which of those closures end in `_sanitize_derivatives` -/
def vecUnSanitized : VOp → Bool
  | .log | .sqrt | .tan => true
  | _ => false

/-- `k * np.power(x, k - 1)` -/
def powBody {α : Type} [NumAlg α] (k : Rat) (x : α) : α :=
  NumAlg.mul (ofRat k) (NumAlg.pow x (ofRat (k - 1)))

def vopName : VOp → String
  | .sin => "sin" | .cos => "cos" | .tan => "tan" | .exp => "exp" | .log => "log"
  | .abs => "abs" | .sqrt => "sqrt" | .sinh => "sinh" | .cosh => "cosh" | .tanh => "tanh"

inductive GradClo
  | powK1 (n : Nat)                                -- grad_power_k1
  | powK2 (n : Nat)                                -- grad_power_k2
  | powGeneral (n : Nat) (k : Rat)                 -- grad_power_general
  | powSparse (n : Nat) (idx : List Nat) (k : Rat) -- grad_power_sparse
  | unFull (n : Nat) (op : VOp)                    -- grad_<op>
  | unSparse (n : Nat) (idx : List Nat) (op : VOp) -- grad_<op>_sparse
  | symbolic (V : List Var) (gs : List Expr)       -- symbolic_gradient
  deriving Inhabited

def GradClo.name : GradClo → String
  | .powK1 _ => "grad_power_k1"
  | .powK2 _ => "grad_power_k2"
  | .powGeneral _ _ => "grad_power_general"
  | .powSparse _ _ _ => "grad_power_sparse"
  | .unFull _ op => "grad_" ++ vopName op
  | .unSparse _ _ op => "grad_" ++ vopName op ++ "_sparse"
  | .symbolic _ _ => "symbolic_gradient"

def GradClo.run {α : Type} [NumAlg α] [DerivAlg α] (c : GradClo) (x : List α) (σ : Nat → α) : List α :=
  match c with
  | .powK1 n => List.replicate n (ofRat 1)
  | .powK2 _ => x.map fun a => NumAlg.mul (ofRat 2) a
  | .powGeneral _ k => sanitize (x.map (powBody k))
  | .powSparse n idx k => sanitize (scatter (zeros n) idx ((gather x idx).map (powBody k)))
  | .unFull _ op =>
    let raw := x.map (vecUnBody op)
    if vecUnSanitized op then sanitize raw else raw
  | .unSparse n idx op =>
    let res := scatter (zeros n) idx ((gather x idx).map (vecUnBody op))
    if vecUnSanitized op then sanitize res else res
  | .symbolic V gs => sanitize (gs.map fun g => denote (envOf V x) σ g)

/-- `_compile_vectorized_power_gradient` -/
def compilePowerGradient (v : VVar) (k : Rat) (V : List Var) : Except JErr GradClo :=
  match indicesOf V v.vars with
  | none => .error .keyError
  | some idx =>
    let n := V.length
    if isFull idx n then
      if k == 1 then .ok (.powK1 n)
      else if k == 2 then .ok (.powK2 n)
      else .ok (.powGeneral n k)
    else .ok (.powSparse n idx k)

/-- `_compile_vectorized_unary_gradient` (its `else: fallback_gradient` branch is unreachable: the ten
    names accepted by the `VectorUnarySum` constructor all have a branch) -/
def compileUnaryGradient (v : VVar) (op : VOp) (V : List Var) : Except JErr GradClo :=
  match indicesOf V v.vars with
  | none => .error .keyError
  | some idx =>
    let n := V.length
    if isFull idx n then .ok (.unFull n op) else .ok (.unSparse n idx op)

/-- `compile_gradient` (also `CompiledExpression.gradient`) -/
def compileGradient (e : Expr) (V : List Var) : Except JErr GradClo :=
  match e with
  | .powSum v k => compilePowerGradient v k V
  | .unSum v op => compileUnaryGradient v op V
  | e =>
    let gs := V.map fun v => grad v e
    if gs.all (namesOK V) then .ok (.symbolic V gs) else .error .keyError

/-! ## `compile_jacobian` -/

inductive JacClo
  | power (g : GradClo)                             -- power_jacobian_fn
  | unary (g : GradClo)                             -- unary_jacobian_fn
  | constant (rows : List (List Cst))               -- constant_jacobian_fn
  | scaled (c : Cst)                                -- scaled_variable_jacobian_fn
  | general (V : List Var) (rows : List (List Expr)) -- jacobian_fn
  deriving Inhabited

def JacClo.name : JacClo → String
  | .power _ => "power_jacobian_fn"
  | .unary _ => "unary_jacobian_fn"
  | .constant _ => "constant_jacobian_fn"
  | .scaled _ => "scaled_variable_jacobian_fn"
  | .general _ _ => "jacobian_fn"

def JacClo.run {α : Type} [NumAlg α] [DerivAlg α] (c : JacClo) (x : List α) (σ : Nat → α) : List (List α) :=
  match c with
  | .power g => [g.run x σ]                         -- grad_fn(x).reshape(1, -1)
  | .unary g => [g.run x σ]
  | .constant rows => rows.map fun r => r.map fun c => (cst c : α)
  | .scaled c => [x.map fun a => NumAlg.mul (cst c) a]   -- (scale * x).reshape(1, -1): not sanitised
  | .general V rows => sanitize2 (rows.map fun r => r.map fun e => denote (envOf V x) σ e)

/-- `all(isinstance(J[i][j], Constant) ...)` together with the extracted `.value`s -/
def allConst : List (List Expr) → Option (List (List Cst))
  | [] => some []
  | r :: t =>
    let rec row : List Expr → Option (List Cst)
      | [] => some []
      | .const c :: u => (row u).map (c :: ·)
      | _ :: _ => none
    match row r, allConst t with
    | some a, some b => some (a :: b)
    | _, _ => none

def compileJacobian (es : List Expr) (V : List Var) : Except JErr JacClo :=
  -- fast path 0
  match es with
  | [.powSum v k] => (compilePowerGradient v k V).map JacClo.power
  | [.unSum v op] => (compileUnaryGradient v op V).map JacClo.unary
  | _ =>
    let J := computeJacobian es V
    -- fast path 1
    match allConst J with
    | some M => .ok (.constant M)
    | none =>
      -- fast path 2 (m == 1)
      let pat : Option Cst :=
        match J with
        | [row] => scaledPattern row V
        | _ => none
      match pat with
      | some c => .ok (.scaled c)
      | none =>
        if J.all (fun r => r.all (namesOK V)) then .ok (.general V J) else .error .keyError

/-! ## `compile_hessian` -/

/-- which `VectorUnarySum` operators have a diagonal fast path in `compile_hessian` -/
def hessFastOp : VOp → Bool
  | .sin | .cos | .exp | .log => true
  | _ => false

/-- second-derivative closure bodies of those fast paths -/
def hessUnBody {α : Type} [NumAlg α] (op : VOp) (x : α) : α :=
  match op with
  | .sin => NumAlg.neg (unop .sin x)
  | .cos => NumAlg.neg (unop .cos x)
  | .exp => unop .exp x
  | .log => NumAlg.div (ofRat (-1)) (NumAlg.pow x (ofRat 2))
  | _ => NumAlg.zero        -- not used: `hessFastOp` is false

def hessUnSanitized : VOp → Bool
  | .log => true
  | _ => false

/-- `coeff * np.power(x, exp)` -/
def hessPowBody {α : Type} [NumAlg α] (coeff exp : Rat) (x : α) : α :=
  NumAlg.mul (ofRat coeff) (NumAlg.pow x (ofRat exp))

inductive HessClo
  | powK1 (n : Nat)                                          -- hess_power_k1
  | powK2 (n : Nat) (full : Bool) (idx : List Nat)           -- hess_power_k2 (matrix built at compile time)
  | powGeneral (n : Nat) (coeff exp : Rat)                   -- hess_power_general
  | powSparse (n : Nat) (idx : List Nat) (coeff exp : Rat)   -- hess_power_sparse
  | unFull (n : Nat) (op : VOp)                              -- hess_<op>
  | unSparse (n : Nat) (idx : List Nat) (op : VOp)           -- hess_<op>_sparse
  | general (V : List Var) (H : List (List Expr))            -- hessian_fn (upper triangle compiled, mirrored)
  deriving Inhabited

def HessClo.name : HessClo → String
  | .powK1 _ => "hess_power_k1"
  | .powK2 _ _ _ => "hess_power_k2"
  | .powGeneral _ _ _ => "hess_power_general"
  | .powSparse _ _ _ _ => "hess_power_sparse"
  | .unFull _ op => "hess_" ++ vopName op
  | .unSparse _ _ op => "hess_" ++ vopName op ++ "_sparse"
  | .general _ _ => "hessian_fn"

/-- `result[i, j] = v` on a 2-D array -/
def set2 {α : Type} (M : List (List α)) (i j : Nat) (v : α) : List (List α) :=
  M.set i ((M.getD i []).set j v)

/-- one iteration of the inner loop of `hessian_fn`:
    `val = compiled[(i, j)](x); result[i, j] = val; if i != j: result[j, i] = val` -/
def hessStep {α : Type} (f : Nat → Nat → α) (i : Nat) (res : List (List α)) (j : Nat) : List (List α) :=
  let val := f i j
  let res := set2 res i j val
  if i != j then set2 res j i val else res

/-- the loops of `hessian_fn`, literally: `result = np.zeros((n, n)); for i in range(n): for j in range(i, n): …` -/
def hessLoop {α : Type} [NumAlg α] (n : Nat) (f : Nat → Nat → α) : List (List α) :=
  (List.range n).foldl (fun res i => (List.range' i (n - i)).foldl (hessStep f i) res) (zeros2 n)

/-- closed form of `hessLoop` (`Lemmas/JacLoop.lean`: same entries): every cell is written exactly once,
    cell (i, j) with the value of the compiled entry (min i j, max i j) -/
def mirrorUpper {α : Type} (n : Nat) (f : Nat → Nat → α) : List (List α) :=
  (List.range n).map fun i => (List.range n).map fun j => if i ≤ j then f i j else f j i

def HessClo.run {α : Type} [NumAlg α] [DerivAlg α] (c : HessClo) (x : List α) (σ : Nat → α) : List (List α) :=
  match c with
  | .powK1 n => zeros2 n
  | .powK2 n full idx =>
    if full then diagM (List.replicate n (ofRat 2))
    else scatterDiag (zeros2 n) idx (List.replicate idx.length (ofRat 2))
  | .powGeneral _ coeff exp => diagM (sanitize (x.map (hessPowBody coeff exp)))
  | .powSparse n idx coeff exp =>
    sanitize2 (scatterDiag (zeros2 n) idx ((gather x idx).map (hessPowBody coeff exp)))
  | .unFull _ op =>
    let d := x.map (hessUnBody op)
    diagM (if hessUnSanitized op then sanitize d else d)
  | .unSparse n idx op =>
    let res := scatterDiag (zeros2 n) idx ((gather x idx).map (hessUnBody op))
    if hessUnSanitized op then sanitize2 res else res
  | .general V H =>
    let entry (i j : Nat) : α := denote (envOf V x) σ ((H.getD i []).getD j (Expr.c 0))
    sanitize2 (hessLoop V.length entry)

/-- the entries `compile_hessian` hands to `compile_expression`: `H[i][j]` for `j ≥ i` -/
def upperEntries (H : List (List Expr)) : List Expr :=
  (H.zipIdx.map fun (p : List Expr × Nat) => p.1.drop p.2).flatten

def compileHessian (e : Expr) (V : List Var) : Except JErr HessClo :=
  let n := V.length
  let general : Except JErr HessClo :=
    let H := computeHessian e V
    if (upperEntries H).all (namesOK V) then .ok (.general V H) else .error .keyError
  match e with
  | .powSum v k =>
    match indicesOf V v.vars with
    | none => .error .keyError
    | some idx =>
      let full := isFull idx n
      if k == 1 then .ok (.powK1 n)
      else if k == 2 then .ok (.powK2 n full idx)
      else if full then .ok (.powGeneral n (k * (k - 1)) (k - 2))
      else .ok (.powSparse n idx (k * (k - 1)) (k - 2))
  | .unSum v op =>
    match indicesOf V v.vars with
    | none => .error .keyError
    | some idx =>
      if hessFastOp op then
        if isFull idx n then .ok (.unFull n op) else .ok (.unSparse n idx op)
      else general
  | _ => general

end Optyx.Py
