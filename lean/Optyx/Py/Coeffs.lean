/-
  Optyx.Py.Coeffs — executable model of the LP extraction of /repo/src/optyx/analysis.py
  over exact rationals.  Core Lean only.

  Modelled functions (Python name → Lean name):
    _extract_constant_impl              → `constTerm`   (mutual with `constLc`)
    extract_constant_term               → `extractConstantTerm`
    _extract_all_coefficients_impl      → `walk`        (mutual with `walkLc`; helpers `walkVars`, `walkLcVars`)
    _extract_coefficient_impl           → `coeffOne`    (mutual with `coeffLc`)
    extract_linear_coefficient          → `extractLinearCoefficient`
    _try_extract_fast_binop             → `fastBinop`
    extract_all_linear_coefficients     → `extractAll`  (`coeffsGeneral` = the final "general case")
    LinearProgramExtractor.extract_*    → `extractObjective`, `extractConstraints`, `extractBounds`, `extractLP`

  Conventions
  * `var_index = {var.name: i for i, var in enumerate(variables)}` is `varIndex V` (a later
    duplicate name overwrites an earlier one, as in a dict comprehension); `n = len(variables)`.
  * the NumPy result array is a `List Rat` of length `n`; `result[idx] += q` is `addAt`.
  * exceptions are `Except Err`: `nonLinear` (NonLinearError), `zeroDiv` (ZeroDivisionError of
    Python float division / `0.0 ** negative`), `noObjective` (NoObjectiveError), `index`
    (IndexError: coefficient array shorter than the vector, `_variables[0]` of an empty vector),
    `unsupported` = `float(value)` of the symbolic constants `ln2`/`ln10`, which have no exact
    rational value (model boundary, never produced for rational inputs).
  * `expr.op in ("+", "-", "<=", ">=", "==")`: a `BinaryOp` only ever carries one of the five
    arithmetic operators, so the test is `op ∈ {+, -}`; `isinstance(expr.right, (Constant, int,
    float))`: operands of a `BinaryOp` are `Expression`s, so the test is `isinstance(right, Constant)`.
  * `expr.left.degree == 0` reads the cached property, which returns `Py.degree`
    (`Props.C04.degree_property_cache`).
  * `int(expr.right.value)` truncates toward zero (`cstInt`).
  * float rounding / overflow is not modelled (DESIGN §4): arithmetic is exact.
-/
import Optyx.Syntax
import Optyx.Py.Degree

namespace Optyx.Py
open Optyx

inductive Err
  | nonLinear
  | zeroDiv
  | noObjective
  | index
  | unsupported
  deriving DecidableEq, Repr

/-- `float(c.value)` -/
def cstRat : Cst → Except Err Rat
  | .rat q => .ok q
  | _ => .error .unsupported

/-- `int(c.value)` (truncation toward zero; `np.log(2.0) = 0.69…`, `np.log(10.0) = 2.30…`) -/
def cstInt : Cst → Int
  | .rat q => q.num.tdiv q.den
  | .ln2 => 0
  | .ln10 => 2

/-- Python `base ** exp` for a float base and an int exponent -/
def ratPowInt (b : Rat) (n : Int) : Except Err Rat :=
  if 0 ≤ n then .ok (b ^ n.toNat)
  else if b == 0 then .error .zeroDiv
  else .ok ((1 / b) ^ (-n).toNat)

/-- `x / float(c)` -/
def ratDiv (x q : Rat) : Except Err Rat :=
  if q == 0 then .error .zeroDiv else .ok (x / q)

/-! ### `_extract_constant_impl` -/

mutual
def constTerm : Expr → Except Err Rat
  | .const c => cstRat c
  | .var _ => .ok 0
  | .vecSum _ => .ok 0
  | .linComb cs v =>
    match v with
    | .exprs es => constLc es cs 0
    | .vars _ => .ok 0
  | .bin .add l r => do
    let a ← constTerm l
    let b ← constTerm r
    pure (a + b)
  | .bin .sub l r => do
    let a ← constTerm l
    let b ← constTerm r
    pure (a - b)
  | .bin .mul l r =>
    match l with
    | .const c => do
      let q ← cstRat c
      let b ← constTerm r
      pure (q * b)
    | _ =>
      match r with
      | .const c => do
        let a ← constTerm l
        let q ← cstRat c
        pure (a * q)
      | _ => do
        let a ← constTerm l
        let b ← constTerm r
        pure (a * b)
  | .bin .div l r =>
    match r with
    | .const c => do
      let a ← constTerm l
      let q ← cstRat c
      ratDiv a q
    | _ => .ok 0
  | .bin .pow l r =>
    match r with
    | .const c =>
      if cstInt c == 0 then .ok 1
      else do
        let a ← constTerm l
        ratPowInt a (cstInt c)
    | _ => .ok 0
  | .un .neg a => do
    let x ← constTerm a
    pure (-x)
  | .un _ _ => .ok 0
  | .param _ => .ok 0
  | .exprSum _ => .ok 0
  | .dot _ _ => .ok 0
  | .l2 _ => .ok 0
  | .l1 _ => .ok 0
  | .quad _ _ => .ok 0
  -- `float(len(vars)) if power == 0 else 0.0`
  | .powSum vv k => .ok (if k == 0 then (vv.vars.length : Rat) else 0)
  | .unSum _ _ => .ok 0
  | .matSumV _ => .ok 0
  | .matSumE _ => .ok 0
  | .frob _ => .ok 0
/-- `total = acc; for i, elem in enumerate(es): total += float(cs[i]) * const(elem)` -/
def constLc : ExprList → List Rat → Rat → Except Err Rat
  | .nil, _, acc => .ok acc
  | .cons e t, cs, acc =>
    match cs with
    | [] => .error .index
    | c :: cs' => do
      let k ← constTerm e
      constLc t cs' (acc + c * k)
end

/-! ### `_extract_all_coefficients_impl` -/

/-- `var_index.get(x)` for `var_index = {name: i for i, name in enumerate(V)}` -/
def varIndexFrom : List String → Nat → Option Nat → String → Option Nat
  | [], _, acc, _ => acc
  | v :: t, i, acc, x => varIndexFrom t (i + 1) (if v == x then some i else acc) x

def varIndex (V : List String) (x : String) : Option Nat := varIndexFrom V 0 none x

/-- `result[i] += q` -/
def addAt : List Rat → Nat → Rat → List Rat
  | [], _, _ => []
  | a :: t, 0, q => (a + q) :: t
  | a :: t, i + 1, q => a :: addAt t i q

/-- `idx = var_index.get(name); if idx is not None: result[idx] += q` -/
def addName (V : List String) (r : List Rat) (x : String) (q : Rat) : List Rat :=
  match varIndex V x with
  | some i => addAt r i q
  | none => r

/-- VectorSum: `for var in vs: … result[idx] += multiplier` -/
def walkVars (V : List String) : List Var → List Rat → Rat → List Rat
  | [], r, _ => r
  | v :: vs, r, m => walkVars V vs (addName V r v.name m) m

/-- LinearCombination over a VectorVariable:
    `for i, var in enumerate(vs): … result[idx] += float(cs[i]) * multiplier`
    (`cs[i]` is only evaluated when the name is known) -/
def walkLcVars (V : List String) : List Var → List Rat → List Rat → Rat → Except Err (List Rat)
  | [], _, r, _ => .ok r
  | v :: vs, cs, r, m =>
    match varIndex V v.name with
    | none => walkLcVars V vs cs.tail r m
    | some i =>
      match cs with
      | [] => .error .index
      | c :: cs' => walkLcVars V vs cs' (addAt r i (c * m)) m

mutual
def walk (V : List String) : Expr → List Rat → Rat → Except Err (List Rat)
  | .const _, r, _ => .ok r
  | .var v, r, m => .ok (addName V r v.name m)
  | .vecSum vv, r, m => .ok (walkVars V vv.vars r m)
  | .linComb cs v, r, m =>
    match v with
    | .vars vv => walkLcVars V vv.vars cs r m
    | .exprs es => walkLc V es cs r m
  | .bin .add l rr, r, m => do
    let r1 ← walk V l r m
    walk V rr r1 m
  | .bin .sub l rr, r, m => do
    let r1 ← walk V l r m
    walk V rr r1 (-m)
  | .bin .mul l rr, r, m =>
    match l with
    | .const c => do
      let q ← cstRat c
      walk V rr r (m * q)
    | _ =>
      match rr with
      | .const c => do
        let q ← cstRat c
        walk V l r (m * q)
      | _ =>
        if degree l == some 0 then do
          let k ← constTerm l
          walk V rr r (m * k)
        else if degree rr == some 0 then do
          let k ← constTerm rr
          walk V l r (m * k)
        else .ok r
  | .bin .div l rr, r, m =>
    match rr with
    | .const c => do
      let q ← cstRat c
      let m' ← ratDiv m q
      walk V l r m'
    | _ => .ok r
  | .bin .pow l rr, r, m =>
    match rr with
    | .const c => if cstInt c == 1 then walk V l r m else .ok r
    | _ => .ok r
  | .un .neg a, r, m => walk V a r (-m)
  | .un _ _, r, _ => .ok r
  | .param _, r, _ => .ok r
  | .exprSum _, r, _ => .ok r
  | .dot _ _, r, _ => .ok r
  | .l2 _, r, _ => .ok r
  | .l1 _, r, _ => .ok r
  | .quad _ _, r, _ => .ok r
  -- `if power == 1:` the VectorSum loop; otherwise nothing
  | .powSum vv k, r, m => .ok (if k == 1 then walkVars V vv.vars r m else r)
  | .unSum _ _, r, _ => .ok r
  | .matSumV _, r, _ => .ok r
  | .matSumE _, r, _ => .ok r
  | .frob _, r, _ => .ok r
/-- LinearCombination over a VectorExpression:
    `for i, elem in enumerate(es): coeff = float(cs[i]) * multiplier; walk(elem, result, coeff)` -/
def walkLc (V : List String) : ExprList → List Rat → List Rat → Rat → Except Err (List Rat)
  | .nil, _, r, _ => .ok r
  | .cons e t, cs, r, m =>
    match cs with
    | [] => .error .index
    | c :: cs' => do
      let r1 ← walk V e r (c * m)
      walkLc V t cs' r1 m
end

/-- the "general case" of `extract_all_linear_coefficients`: `np.zeros(n)` then the walker -/
def coeffsGeneral (e : Expr) (V : List String) : Except Err (List Rat) :=
  walk V e (List.replicate V.length 0) 1

/-! ### `_extract_coefficient_impl` (single variable; used by `extract_linear_coefficient`) -/

/-- `for i, v in enumerate(vs): if v.name == x: return float(cs[i])`; `return 0.0` -/
def coeffLcVars (x : String) : List Var → List Rat → Except Err Rat
  | [], _ => .ok 0
  | v :: vs, cs =>
    if v.name == x then
      match cs with
      | [] => .error .index
      | c :: _ => .ok c
    else coeffLcVars x vs cs.tail

mutual
def coeffOne (x : String) : Expr → Except Err Rat
  | .const _ => .ok 0
  | .var v => .ok (if v.name == x then 1 else 0)
  | .linComb cs v =>
    match v with
    | .vars vv => coeffLcVars x vv.vars cs
    | .exprs es => coeffLc x es cs 0
  | .vecSum vv => .ok (if vv.vars.any (·.name == x) then 1 else 0)
  | .bin .add l r => do
    let a ← coeffOne x l
    let b ← coeffOne x r
    pure (a + b)
  | .bin .sub l r => do
    let a ← coeffOne x l
    let b ← coeffOne x r
    pure (a - b)
  | .bin .mul l r =>
    match l with
    | .const c => do
      let q ← cstRat c
      let b ← coeffOne x r
      pure (q * b)
    | _ =>
      match r with
      | .const c => do
        let a ← coeffOne x l
        let q ← cstRat c
        pure (a * q)
      | _ =>
        if degree l == some 0 then do
          let k ← constTerm l
          let b ← coeffOne x r
          pure (k * b)
        else if degree r == some 0 then do
          let a ← coeffOne x l
          let k ← constTerm r
          pure (a * k)
        else .ok 0
  | .bin .div l r =>
    match r with
    | .const c => do
      let a ← coeffOne x l
      let q ← cstRat c
      ratDiv a q
    | _ => .ok 0
  | .bin .pow l r =>
    match r with
    | .const c =>
      if cstInt c == 0 then .ok 0
      else if cstInt c == 1 then coeffOne x l
      else .ok 0
    | _ => .ok 0
  | .un .neg a => do
    let v ← coeffOne x a
    pure (-v)
  | .un _ _ => .ok 0
  | .param _ => .ok 0
  | .exprSum _ => .ok 0
  | .dot _ _ => .ok 0
  | .l2 _ => .ok 0
  | .l1 _ => .ok 0
  | .quad _ _ => .ok 0
  | .powSum vv k => .ok (if k == 1 && vv.vars.any (·.name == x) then 1 else 0)
  | .unSum _ _ => .ok 0
  | .matSumV _ => .ok 0
  | .matSumE _ => .ok 0
  | .frob _ => .ok 0
def coeffLc (x : String) : ExprList → List Rat → Rat → Except Err Rat
  | .nil, _, acc => .ok acc
  | .cons e t, cs, acc =>
    match cs with
    | [] => .error .index
    | c :: cs' => do
      let k ← coeffOne x e
      coeffLc x t cs' (acc + c * k)
end

/-- `extract_linear_coefficient(expr, var)` -/
def extractLinearCoefficient (e : Expr) (x : String) : Except Err Rat :=
  if isLinear e then coeffOne x e else .error .nonLinear

/-- `extract_constant_term(expr)` -/
def extractConstantTerm (e : Expr) : Except Err Rat :=
  if isLinear e then constTerm e else .error .nonLinear

/-! ### `extract_all_linear_coefficients` and its O(1) shortcuts -/

/-- `all(var_index.get(v.name, -1) == i for i, v in enumerate(variables))`, from position `i` on -/
def alignedFrom (V : List String) : List Var → Nat → Bool
  | [], _ => true
  | v :: t, i => (varIndex V v.name == some i) && alignedFrom V t (i + 1)

/-- the test shared by all shortcuts, `_vector_is_aligned(vector, var_index, n)`:
    `len(vector._variables) == n` and every element sits at its own position of the LP's variable list
    (before the repair F35 only the first position was tested).
    `none` = the length test failed (fall through).  The `Except` is kept for the callers; it never raises. -/
def coversAll (V : List String) (vv : VVar) : Except Err (Option Bool) :=
  if vv.vars.length == V.length then .ok (some (alignedFrom V vv.vars 0))
  else .ok none

/-- `_try_extract_fast_binop` -/
def fastBinop (V : List String) (op : BinOp) (l r : Expr) : Except Err (Option (List Rat)) :=
  let n := V.length
  if op == .add || op == .sub then
    -- "Try left side as VectorSum"
    match l with
    | .vecSum vv => do
      let t ← coversAll V vv
      if t == some true && isConstNode r then pure (some (List.replicate n 1)) else pure none
    -- "Try left side as LinearCombination"
    | .linComb cs (.vars vv) => do
      let t ← coversAll V vv
      if t == some true && isConstNode r then pure (some cs) else pure none
    | _ => pure none
  else if op == .mul then
    match l, r with
    | .const c, .vecSum vv => do
      let t ← coversAll V vv
      if t == some true then do
        let q ← cstRat c
        pure (some (List.replicate n q))
      else pure none
    | .vecSum vv, .const c => do
      let t ← coversAll V vv
      if t == some true then do
        let q ← cstRat c
        pure (some (List.replicate n q))
      else pure none
    | _, _ => pure none
  else pure none

/-- `extract_all_linear_coefficients(expr, var_index, n)` with `n = len(V)` -/
def extractAll (e : Expr) (V : List String) : Except Err (List Rat) :=
  if !isLinear e then .error .nonLinear
  else
    match e with
    | .vecSum vv => do
      let t ← coversAll V vv
      if t == some true then pure (List.replicate V.length 1) else coeffsGeneral e V
    | .linComb cs (.vars vv) => do
      let t ← coversAll V vv
      if t == some true then pure cs else coeffsGeneral e V
    | .bin op l r => do
      let f ← fastBinop V op l r
      match f with
      | some res => pure res
      | none => coeffsGeneral e V
    | _ => coeffsGeneral e V

/-! ### `LinearProgramExtractor` -/

inductive Sense | le | ge | eq
  deriving DecidableEq, Repr

structure VarDecl where
  name : String
  lb : Option Rat
  ub : Option Rat
  deriving Repr

/-- what the extractor reads from a `Problem`: `objective`, `sense`, `constraints`
    (`expr`, `sense` of each), `variables` (ordered, with their declared bounds) -/
structure LPProblem where
  objective : Option Expr
  maximize : Bool
  constraints : List (Expr × Sense)
  vars : List VarDecl

def LPProblem.names (p : LPProblem) : List String := p.vars.map (·.name)

structure LPData where
  c : List Rat
  maximize : Bool                 -- `sense = "min" if problem.sense == "minimize" else "max"`
  aub : List (List Rat)           -- `None` in Python iff empty
  bub : List Rat
  aeq : List (List Rat)
  beq : List Rat
  bounds : List (Option Rat × Option Rat)
  variables : List String
  c0 : Rat
  deriving Repr

/-- `extract_objective` → `(c, sense, variables)` -/
def extractObjective (p : LPProblem) : Except Err (List Rat × Bool × List VarDecl) :=
  match p.objective with
  | none => .error .noObjective
  | some obj =>
    if !isLinear obj then .error .nonLinear
    else do
      let c ← extractAll obj p.names
      pure (c, p.maximize, p.vars)

structure Rows where
  ubRows : List (List Rat)
  ubRhs : List Rat
  eqRows : List (List Rat)
  eqRhs : List Rat

/-- the `for constraint in problem.constraints:` loop with its four accumulators -/
def constraintLoop (V : List String) : List (Expr × Sense) → Rows → Except Err Rows
  | [], acc => .ok acc
  | (e, s) :: t, acc =>
    if !isLinear e then .error .nonLinear
    else do
      let row ← extractAll e V
      let k ← extractConstantTerm e
      let rhs := -k
      match s with
      | .eq => constraintLoop V t { acc with eqRows := acc.eqRows ++ [row], eqRhs := acc.eqRhs ++ [rhs] }
      | .le => constraintLoop V t { acc with ubRows := acc.ubRows ++ [row], ubRhs := acc.ubRhs ++ [rhs] }
      | .ge => constraintLoop V t { acc with ubRows := acc.ubRows ++ [row.map (- ·)], ubRhs := acc.ubRhs ++ [-rhs] }

/-- `extract_constraints(problem, variables)` -/
def extractConstraints (p : LPProblem) (variables : List VarDecl) : Except Err Rows :=
  constraintLoop (variables.map (·.name)) p.constraints ⟨[], [], [], []⟩

/-- `extract_bounds(variables)` -/
def extractBounds (variables : List VarDecl) : List (Option Rat × Option Rat) :=
  variables.map fun v => (v.lb, v.ub)

/-- `LinearProgramExtractor().extract(problem)` -/
def extractLP (p : LPProblem) : Except Err LPData := do
  let (c, sense, variables) ← extractObjective p
  let rows ← extractConstraints p variables
  let bounds := extractBounds variables
  let c0 ←
    match p.objective with
    | some obj => extractConstantTerm obj
    | none => .error .noObjective
  pure { c := c, maximize := sense, aub := rows.ubRows, bub := rows.ubRhs, aeq := rows.eqRows,
         beq := rows.eqRhs, bounds := bounds, variables := variables.map (·.name), c0 := c0 }

end Optyx.Py
