/-
  Optyx.Py.Degree — executable model of the degree classification of
  /repo/src/optyx/analysis.py and of the cached `Expression.degree` property
  (core/expressions.py).  Core Lean only.

  Modelled functions (Python name → Lean name):
    _compute_degree_impl            → `degree`      (mutual with `vecDegree`, `maxDegList`)
    _vector_degree                  → `vecDegree`
    _compute_degree_iterative       → `step` / `run fuel` / `degreeIter fuel`
    _estimate_tree_depth            → `estimateDepth`
    compute_degree                  → `computeDegree T`   (T = `_RECURSION_THRESHOLD`, a parameter)
    Expression.degree (property)    → `Slot`, `readDegree`, `readMany`
    is_linear / is_quadratic        → `isLinear` / `isQuadratic`

  Degrees are `Option Nat` (`none` = Python `None` = "not a polynomial").

  Reading notes
  * `isinstance(expr, Constant)` is `Expr.const`; `Parameter` is neither `Constant` nor
    `Variable`, `BinaryOp`, `UnaryOp` nor one of the vector classes listed in
    `_compute_degree_impl`, so it reaches the final `return None`; the same holds for
    `VectorExpressionSum`, `L2Norm`, `L1Norm`, `MatrixSum`, `FrobeniusNorm`.
  * `VectorSum.vector` is always a `VectorVariable` in `Optyx.Syntax` (`x.sum()` of a
    `VectorExpression` builds a `VectorExpressionSum`), so the `_expressions` branch of the
    `VectorSum` case is not reachable from the syntax and `vecSum` has degree 1.
  * the three exponent tests `isinstance(right, Constant)`, `isinstance(value, numbers.Number)`,
    `float(value).is_integer() and >= 0` are `expNat`: constants are exact rationals here
    (array constants are outside the syntax); `ln2`, `ln10` are not integers.
  * `lru_cache` on `_compute_degree_cached(id(expr), expr)` is a transparent memo of a pure
    function keyed by the (kept-alive) object itself: not modelled.
-/
import Optyx.Syntax

namespace Optyx.Py
open Optyx

/-- Python `Optional[int]` degree -/
abbrev Deg := Option Nat

/-- `float(q).is_integer() and float(q) >= 0` ⇒ `int(q)` -/
def ratNat (q : Rat) : Option Nat :=
  if q.den == 1 && decide (0 ≤ q.num) then some q.num.toNat else none

/-- the exponent tests of the `**` branch: `some n` iff the right operand is a `Constant`
    holding a non-negative integer-valued number `n` -/
def expNat : Expr → Option Nat
  | .const (.rat q) => ratNat q
  | _ => none

/-- `isinstance(e, Constant)` -/
def isConstNode : Expr → Bool
  | .const _ => true
  | _ => false

mutual
/-- `_compute_degree_impl` -/
def degree : Expr → Deg
  | .const _ => some 0
  | .var _ => some 1
  | .linComb _ v => vecDegree v
  | .vecSum _ => some 1
  | .dot l r =>
    match vecDegree l with
    | none => none
    | some a =>
      match vecDegree r with
      | none => none
      | some b => some (max 2 (a + b))
  | .quad v _ =>
    match vecDegree v with
    | none => none
    | some a => some (max 2 (2 * a))
  | .powSum _ k => ratNat k
  | .unSum _ _ => none
  | .bin .pow l r =>
    match expNat r with
    | none => none
    | some n =>
      match degree l with
      | none => none
      | some d => some (d * n)
  | .bin .div l r => if isConstNode r then degree l else none
  | .bin .add l r =>
    match degree l with
    | none => none
    | some a =>
      match degree r with
      | none => none
      | some b => some (max a b)
  | .bin .sub l r =>
    match degree l with
    | none => none
    | some a =>
      match degree r with
      | none => none
      | some b => some (max a b)
  | .bin .mul l r =>
    match degree l with
    | none => none
    | some a =>
      match degree r with
      | none => none
      | some b => if 0 < a ∧ 0 < b then none else some (a + b)
  | .un .neg a => degree a
  | .un _ _ => none
  | .param _ => none
  | .exprSum _ => none
  | .l2 _ => none
  | .l1 _ => none
  | .matSumV _ => none
  | .matSumE _ => none
  | .frob _ => none
/-- `_vector_degree` (also the `LinearCombination` branch, which inlines the same loop) -/
def vecDegree : Vec → Deg
  | .vars _ => some 1
  | .exprs es => maxDegList es 0
/-- `max_deg = acc; for sub in es: d = degree(sub); if d is None: return None; max_deg = max(max_deg, d)` -/
def maxDegList : ExprList → Nat → Deg
  | .nil, acc => some acc
  | .cons e t, acc =>
    match degree e with
    | none => none
    | some d => maxDegList t (max acc d)
end

/-! ### `_compute_degree_iterative`: the explicit-stack machine -/

/-- stack entry `(node, phase, left_deg, right_deg)`; `right_deg` is always `None` in the
    Python code and never read, so it is not represented -/
structure Frame where
  node : Expr
  phase : Nat
  leftDeg : Deg

inductive MachErr
  | outOfFuel   -- model artefact: the fuel of `run` was too small (excluded by `degreeIter_eq`)
  | popEmpty    -- `result_stack.pop()` on an empty list (IndexError in Python)
  deriving DecidableEq, Repr

structure St where
  stack : List Frame          -- head = top of the Python list `stack`
  res : List Deg              -- head = top of `result_stack`

/-- one iteration of the `while stack:` loop, after `stack.pop()` returned `f` -/
def step (f : Frame) (stk : List Frame) (rs : List Deg) : Except MachErr St :=
  match f.node with
  | .const _ => .ok ⟨stk, some 0 :: rs⟩
  | .var _ => .ok ⟨stk, some 1 :: rs⟩
  | .un op a =>
    if op == .neg then
      if f.phase == 0 then .ok ⟨⟨a, 0, none⟩ :: ⟨f.node, 1, none⟩ :: stk, rs⟩
      else
        match rs with
        | [] => .error .popEmpty
        | r :: rs' => .ok ⟨stk, r :: rs'⟩
    else .ok ⟨stk, none :: rs⟩
  | .bin op l r =>
    if f.phase == 0 then .ok ⟨⟨l, 0, none⟩ :: ⟨f.node, 1, none⟩ :: stk, rs⟩
    else if f.phase == 1 then
      match rs with
      | [] => .error .popEmpty
      | leftResult :: rs' =>
        if op == .pow then
          match expNat r with
          | none => .ok ⟨stk, none :: rs'⟩
          | some n =>
            match leftResult with
            | none => .ok ⟨stk, none :: rs'⟩
            | some d => .ok ⟨stk, some (d * n) :: rs'⟩
        else if op == .div then
          if isConstNode r then .ok ⟨stk, leftResult :: rs'⟩ else .ok ⟨stk, none :: rs'⟩
        else
          match leftResult with
          | none => .ok ⟨stk, none :: rs'⟩
          | some _ => .ok ⟨⟨r, 0, none⟩ :: ⟨f.node, 2, leftResult⟩ :: stk, rs'⟩
    else
      match rs with
      | [] => .error .popEmpty
      | rightResult :: rs' =>
        match rightResult, f.leftDeg with
        | some b, some a =>
          if op == .add || op == .sub then .ok ⟨stk, some (max a b) :: rs'⟩
          else if op == .mul then
            if 0 < a ∧ 0 < b then .ok ⟨stk, none :: rs'⟩ else .ok ⟨stk, some (a + b) :: rs'⟩
          else .ok ⟨stk, none :: rs'⟩
        | _, _ => .ok ⟨stk, none :: rs'⟩
  | e => .ok ⟨stk, degree e :: rs⟩     -- `not isinstance(node, (BinaryOp, UnaryOp))`: delegate

/-- `while stack:` with fuel -/
def run : Nat → St → Except MachErr St
  | _, ⟨[], rs⟩ => .ok ⟨[], rs⟩
  | 0, ⟨_ :: _, _⟩ => .error .outOfFuel
  | n + 1, ⟨f :: stk, rs⟩ =>
    match step f stk rs with
    | .ok s => run n s
    | .error err => .error err

/-- `_compute_degree_iterative(expr)`; the last line is `result_stack[-1] if result_stack else None` -/
def degreeIter (fuel : Nat) (e : Expr) : Except MachErr Deg :=
  match run fuel ⟨[⟨e, 0, none⟩], []⟩ with
  | .ok ⟨_, r :: _⟩ => .ok r
  | .ok ⟨_, []⟩ => .ok none
  | .error err => .error err

/-! ### `_estimate_tree_depth` -/

/-- weight of a stack entry of `_estimate_tree_depth` (termination measure only):
    `none` stands for a pushed object that is not an `Expression` (the operands of a
    `DotProduct` are vectors; they match no `isinstance` test and are simply dropped) -/
def depthWeight : Option Expr × Nat → Nat
  | (some e, _) => e.size
  | (none, _) => 1

mutual
theorem Expr.size_pos : (e : Expr) → 0 < e.size
  | .const _ | .var _ | .param _ | .vecSum _ | .powSum _ _ | .unSum _ _ | .matSumV _ | .frob _ => by
    simp [Expr.size]
  | .bin _ _ _ | .un _ _ | .linComb _ _ | .l2 _ | .l1 _ | .quad _ _ | .exprSum _ | .matSumE _
  | .dot _ _ => by simp [Expr.size]
end

theorem Vec.size_pos (v : Vec) : 0 < v.size := by
  cases v <;> simp [Vec.size]

/-- the `while stack and max_found < max_depth:` loop -/
def estimateDepthLoop (maxDepth : Nat) : List (Option Expr × Nat) → Nat → Nat
  | [], maxFound => maxFound
  | (cur, d) :: rest, maxFound =>
    if maxFound < maxDepth then
      let mf := max maxFound d
      match cur with
      | some (.bin _ l r) => estimateDepthLoop maxDepth ((some r, d + 1) :: (some l, d + 1) :: rest) mf
      | some (.un _ a) => estimateDepthLoop maxDepth ((some a, d + 1) :: rest) mf
      | some (.dot _ _) => estimateDepthLoop maxDepth ((none, d + 1) :: (none, d + 1) :: rest) mf
      | _ => estimateDepthLoop maxDepth rest mf
    else maxFound
termination_by stk => (stk.map depthWeight).sum
decreasing_by
  all_goals simp_wf
  all_goals simp only [depthWeight, Expr.size]
  · omega
  · omega
  · rename_i l r
    have := Vec.size_pos l; have := Vec.size_pos r; omega
  · rename_i cur
    cases cur with
    | none => simp
    | some e => simpa using Expr.size_pos e

/-- `_estimate_tree_depth(expr, max_depth=500)` -/
def estimateDepth (e : Expr) (maxDepth : Nat := 500) : Nat :=
  estimateDepthLoop maxDepth [(some e, 0)] 0

/-! ### `compute_degree` -/

/-- `compute_degree(expr)` with `_RECURSION_THRESHOLD = T`.  The fuel `3 * size e` of the
    explicit-stack run is a model artefact (Python's loop has none); `degreeIter_eq` shows it
    is always enough. -/
def computeDegree (T : Nat) (e : Expr) : Except MachErr Deg :=
  if T ≤ estimateDepth e then degreeIter (3 * e.size) e else .ok (degree e)

/-! ### the cached property `Expression.degree` -/

/-- state of the `_degree` slot of one node: attribute missing, `None` (what
    `Variable.__init__` stores), or an `int` (`-1` = cached "not a polynomial") -/
inductive Slot
  | unset
  | pyNone
  | int (v : Int)
  deriving DecidableEq, Repr

/-- `self._degree = result if result is not None else -1` -/
def encodeDeg : Deg → Int
  | some d => (d : Int)
  | none => -1

/-- one read of `e.degree`: result and new slot state -/
def readDegree (T : Nat) (e : Expr) : Slot → Except MachErr (Deg × Slot)
  | .int v => .ok (if v == -1 then none else some v.toNat, .int v)
  | _ =>
    match computeDegree T e with
    | .ok r => .ok (r, .int (encodeDeg r))
    | .error err => .error err

/-- `k` successive reads of the property -/
def readMany (T : Nat) (e : Expr) : Nat → Slot → Except MachErr (List Deg)
  | 0, _ => .ok []
  | k + 1, s =>
    match readDegree T e s with
    | .error err => .error err
    | .ok (r, s') =>
      match readMany T e k s' with
      | .ok rs => .ok (r :: rs)
      | .error err => .error err

/-- `is_linear(e)`: `deg is not None and deg <= 1` (through the property; see
    `Props.C04.degree_property_cache`) -/
def isLinear (e : Expr) : Bool :=
  match degree e with
  | some d => d ≤ 1
  | none => false

/-- `is_quadratic(e)` -/
def isQuadratic (e : Expr) : Bool :=
  match degree e with
  | some d => d ≤ 2
  | none => false

end Optyx.Py
