/-
  Optyx.Py.BuildSupport — the two list idioms of the recursive closure compiler as the translator
  (harness/py2lean_build.py → `Generated/BuildStep.lean`) renders them, with the recursive call as a parameter.
-/
import Optyx.Py.Compile

namespace Optyx.Py
open Optyx

/-- `[_build_evaluator(e, var_indices) for e in vec._expressions]` (left to right; the first error wins) -/
def mapRec (recE : Expr → Except CErr Clo) : ExprList → Except CErr CloList
  | .nil => .ok .nil
  | .cons e t => do
    let c ← recE e
    let r ← mapRec recE t
    pure (.cons c r)

/-- `[_build_evaluator(v, var_indices) for row in mat._variables for v in row]` (row-major) -/
def mapRecVars (recE : Expr → Except CErr Clo) : List Var → Except CErr CloList
  | [] => .ok .nil
  | v :: t => do
    let c ← recE (.var v)
    let r ← mapRecVars recE t
    pure (.cons c r)

end Optyx.Py
