/-
  Optyx.Py.Vars — executable model of variable discovery:
  `Expression.get_variables()` of every class, `_get_variables_iterative`, `get_all_variables`,
  and `_estimate_tree_depth` (core/expressions.py version).

  * Python returns `set[Variable]`; `Variable.__eq__/__hash__` are by name.  The model returns a
    `List Var` that enumerates the occurrences in a fixed (left-to-right) order; only membership
    (of names) is meaningful and only membership is compared with the implementation.
  * `MatrixVariable.get_variables()` lists the upper triangle of a symmetric matrix; a symmetric
    matrix repeats its off-diagonal element objects, so as a *set* this is `m.flat`.
  * `id(node)` / the `seen` set: the explicit-stack traversal is modelled over `ITree`, an
    expression whose BinaryOp/UnaryOp/other nodes carry an object identity.  The driver feeds it
    `label e` (every position its own id: a tree without sharing); theorems are stated for
    every identity assignment they hold for.
  * the `try: … except RecursionError: pass` around the fallback `node.get_variables()` is about
    CPython's stack and is not modelled (the fallback is the recursive `getVars`); likewise the
    `try: return expr.get_variables() / except RecursionError: pass` of `get_all_variables` (stack overflow of
    the recursive arm falls through to the explicit-stack arm, which computes the same set).
-/
import Optyx.Syntax

namespace Optyx.Py
open Optyx

mutual
/-- `expr.get_variables()` -/
def getVars : Expr → List Var
  | .const _ => []                                          -- set()
  | .var v => [v]                                           -- {self}
  | .param _ => []                                          -- set()
  | .bin _ l r => getVars l ++ getVars r                    -- left | right
  | .un _ a => getVars a
  | .linComb _ v => getVarsVec v
  | .vecSum v => v.vars                                     -- set(self.vector._variables)
  | .exprSum es => getVarsList es                           -- self.expression.get_variables()
  | .dot l r => getVarsVec l ++ getVarsVec r
  | .l2 v => getVarsVec v
  | .l1 v => getVarsVec v
  | .quad v _ => getVarsVec v
  | .powSum v _ => v.vars
  | .unSum v _ => v.vars
  | .matSumV m => m.flat                                    -- set(matrix.get_variables())
  | .matSumE es => getVarsList es                           -- MatrixExpression.get_variables()
  | .frob m => m.flat
/-- `set(vec._variables)` / `VectorExpression.get_variables()` -/
def getVarsVec : Vec → List Var
  | .vars v => v.vars
  | .exprs es => getVarsList es
def getVarsList : ExprList → List Var
  | .nil => []
  | .cons e t => getVars e ++ getVarsList t
end

/-- names occurring in `e` -/
def varNames (e : Expr) : List String := (getVars e).map (·.name)

/-! ### expressions with object identities -/

/-- the nodes both explicit-stack traversals (variables, gradient) finish in one iteration:
    everything that is not a `BinaryOp` / `UnaryOp` -/
inductive Atom
  | const (c : Cst)
  | var (v : Var)
  | param (p : Par)
  | linComb (cs : List Rat) (v : Vec)
  | vecSum (v : VVar)
  | exprSum (es : ExprList)
  | dot (l r : Vec)
  | l2 (v : Vec)
  | l1 (v : Vec)
  | quad (v : Vec) (q : List (List Rat))
  | powSum (v : VVar) (k : Rat)
  | unSum (v : VVar) (op : VOp)
  | matSumV (m : MVar)
  | matSumE (es : ExprList)
  | frob (m : MVar)

def Atom.toExpr : Atom → Expr
  | .const c => .const c
  | .var v => .var v
  | .param p => .param p
  | .linComb cs v => .linComb cs v
  | .vecSum v => .vecSum v
  | .exprSum es => .exprSum es
  | .dot l r => .dot l r
  | .l2 v => .l2 v
  | .l1 v => .l1 v
  | .quad v q => .quad v q
  | .powSum v k => .powSum v k
  | .unSum v op => .unSum v op
  | .matSumV m => .matSumV m
  | .matSumE es => .matSumE es
  | .frob m => .frob m

/-- the BinaryOp/UnaryOp skeleton of an expression with `id(node)` on every node -/
inductive ITree
  | leaf (id : Nat) (a : Atom)
  | un (id : Nat) (op : UnOp) (a : ITree)
  | bin (id : Nat) (op : BinOp) (l r : ITree)

namespace ITree

def id : ITree → Nat
  | leaf i _ => i
  | un i _ _ => i
  | bin i _ _ _ => i

/-- forget the identities -/
def erase : ITree → Expr
  | leaf _ a => a.toExpr
  | un _ op a => .un op a.erase
  | bin _ op l r => .bin op l.erase r.erase

/-- number of skeleton nodes -/
def nodes : ITree → Nat
  | leaf _ _ => 1
  | un _ _ a => a.nodes + 1
  | bin _ _ l r => l.nodes + r.nodes + 1

/-- identities of all skeleton positions, pre-order -/
def ids : ITree → List Nat
  | leaf i _ => [i]
  | un i _ a => i :: a.ids
  | bin i _ l r => i :: (l.ids ++ r.ids)

end ITree

/-- skeleton size of an expression (`ITree.nodes` of its labelling) -/
def skel : Expr → Nat
  | .bin _ l r => skel l + skel r + 1
  | .un _ a => skel a + 1
  | _ => 1

/-- a tree without sharing: position `k` in pre-order gets identity `n + k` -/
def label (n : Nat) : Expr → ITree
  | .bin op l r => .bin n op (label (n + 1) l) (label (n + 1 + skel l) r)
  | .un op a => .un n op (label (n + 1) a)
  | .const c => .leaf n (.const c)
  | .var v => .leaf n (.var v)
  | .param p => .leaf n (.param p)
  | .linComb cs v => .leaf n (.linComb cs v)
  | .vecSum v => .leaf n (.vecSum v)
  | .exprSum es => .leaf n (.exprSum es)
  | .dot l r => .leaf n (.dot l r)
  | .l2 v => .leaf n (.l2 v)
  | .l1 v => .leaf n (.l1 v)
  | .quad v q => .leaf n (.quad v q)
  | .powSum v k => .leaf n (.powSum v k)
  | .unSum v op => .leaf n (.unSum v op)
  | .matSumV m => .leaf n (.matSumV m)
  | .matSumE es => .leaf n (.matSumE es)
  | .frob m => .leaf n (.frob m)

/-! ### `_get_variables_iterative` -/

/-- what the loop body adds for a non-BinaryOp/UnaryOp node -/
def atomVars : Atom → List Var
  | .var v => [v]                                  -- variables.add(node)
  | .const _ => []                                 -- continue
  -- LinearCombination, VectorSum, DotProduct, L2Norm, L1Norm: variables.update(node.get_variables())
  -- every other class (Parameter, QuadraticForm, …): the fallback, again node.get_variables()
  | a => getVars a.toExpr

structure VSt where
  stack : List ITree     -- head = top
  seen : List Nat
  vars : List Var

/-- one iteration of `while stack:` -/
def vstep (s : VSt) : VSt :=
  match s.stack with
  | [] => s
  | node :: rest =>
    if s.seen.contains node.id then ⟨rest, s.seen, s.vars⟩     -- if node_id in seen: continue
    else
      let seen := node.id :: s.seen
      match node with
      | .leaf _ a => ⟨rest, seen, s.vars ++ atomVars a⟩
      | .bin _ _ l r => ⟨r :: l :: rest, seen, s.vars⟩         -- append(left); append(right)
      | .un _ _ a => ⟨a :: rest, seen, s.vars⟩

def vrun : Nat → VSt → VSt
  | 0, s => s
  | n + 1, s => vrun n (vstep s)

/-- `_get_variables_iterative(expr)`; `none` = the fuel did not suffice (never with
    `fuel ≥ t.nodes`) -/
def varsIter (fuel : Nat) (t : ITree) : Option (List Var) :=
  let s := vrun fuel ⟨[t], [], []⟩
  match s.stack with
  | [] => some s.vars
  | _ => none

/-- `_estimate_tree_depth` of core/expressions.py: left spine; `DotProduct` counts one and
    stops (its `left` is a vector object); `LinearCombination`, `VectorSum` and all others stop -/
def depthE : Expr → Nat
  | .bin _ l _ => depthE l + 1
  | .un _ a => depthE a + 1
  | .dot _ _ => 1
  | _ => 0

/-- `get_all_variables(expr)` with the threshold as a parameter -/
def getAllVariables (thr : Nat) (e : Expr) : Option (List Var) :=
  if depthE e < thr then some (getVars e) else varsIter (skel e) (label 0 e)

end Optyx.Py
