/-
  Optyx.Py.State — executable state-machine models of the *stateful shell* of optyx.

  Part 1 (C13): `Problem` (problem.py) with its four caches and the two solver front ends
      (solvers/scipy_solver.py, solvers/lp_solver.py) as `step : PState → Op → PState × Obs`.
      Expressions are abstract (`E`): the property is about staleness, not about what is
      computed.  A cache entry records *which model it was computed from* (ghost field `src`);
      everything the solver back end receives is a function of those sources and of the bounds
      that are read at solve time.
  Part 2 (C12): a model expression with `Parameter` leaves, the parameter store `σ`, and the
      derived artefacts (`compile_expression`, `compile_jacobian`, `compile_hessian`) as
      `pstep : PSt → POp → PSt × List α`.  The builders of the artefacts do not take `σ` as
      an argument: "nothing stores σ p" is true by construction of the model, and the
      correspondence check (set between build and call) is what ties that to the code.
-/
import Optyx.Syntax
import Optyx.Denote
import Optyx.Py.Grad
import Optyx.Generated.Tables

namespace Optyx.Py.State
open Optyx

/-! ## Part 1 — Problem and its caches -/

inductive Sense | minimize | maximize
  deriving DecidableEq, Repr, Inhabited

inductive CSense | le | ge | eq
  deriving DecidableEq, Repr, Inhabited

/-- `Constraint(expr, sense)` -/
structure Con (E : Type) where
  expr : E
  sense : CSense
  deriving DecidableEq, Repr

/-- what the user has stated: `_objective`, `_sense`, `_constraints` — the three fields whose
    every assignment is followed by `_invalidate_caches()` -/
structure Model (E : Type) where
  obj : Option E
  sense : Sense
  cons : List (Con E)
  deriving DecidableEq, Repr

/-- `(v.lb, v.ub)`; `none` = Python `None` -/
abbrev Bnd := Option Rat × Option Rat

/-- the facts about expressions that the control flow of `solve` branches on -/
structure Ctx (E : Type) where
  deg : E → Option Nat        -- analysis.compute_degree
  vars : E → List Nat         -- get_all_variables, as tags whose order is the natural order

variable {E : Type}

/-- `is_linear(expr)`: `deg is not None and deg <= 1` -/
def linE (ctx : Ctx E) (e : E) : Bool :=
  match ctx.deg e with
  | some d => d ≤ 1
  | none => false

/-- body of `Problem._is_linear_problem` (also the three checks at the top of `solve_lp`) -/
def Model.isLinear (ctx : Ctx E) (m : Model E) : Bool :=
  match m.obj with
  | none => false
  | some o => linE ctx o && m.cons.all fun c => linE ctx c.expr

/-- insertion into a sorted duplicate-free list (`set.add` followed by `sorted`) -/
def insertSorted (a : Nat) : List Nat → List Nat
  | [] => [a]
  | b :: t => if a < b then a :: b :: t else if a = b then b :: t else b :: insertSorted a t

/-- body of `Problem.variables` (general path): union of the variable sets, sorted -/
def Model.vars (ctx : Ctx E) (m : Model E) : List Nat :=
  let all := (match m.obj with | some o => ctx.vars o | none => []) ++
    (m.cons.map fun c => ctx.vars c.expr).flatten
  all.foldr insertSorted []

/-- `degree is None or degree > 2` -/
def needsRobust (d : Option Nat) : Bool :=
  match d with
  | none => true
  | some k => k > 2

/-- `Problem._auto_select_method` -/
def autoSelect (ctx : Ctx E) (m : Model E) : String :=
  if m.cons.isEmpty then "L-BFGS-B"
  else if (match m.obj with | some o => needsRobust (ctx.deg o) | none => false) then "trust-constr"
  else if m.cons.any (fun c => needsRobust (ctx.deg c.expr)) then "trust-constr"
  else "SLSQP"

/-- `_solver_cache`: `obj_fn`, `grad_fn`, `scipy_constraints` compiled from `src`; the stored
    `bounds` entry; the lazily added `hess_fn` (compiled from the objective and sense of `hess`) -/
structure SolverCache (E : Type) where
  src : Model E
  bounds : List Bnd
  hess : Option (Model E)
  deriving DecidableEq, Repr

/-- `_lp_cache`: `LPData` (c, A_ub, b_ub, A_eq, b_eq, sense, variable names, c0) extracted from
    `src`, and its `bounds` attribute -/
structure LPCache (E : Type) where
  src : Model E
  bounds : List Bnd
  deriving DecidableEq, Repr

structure PState (E : Type) where
  model : Model E
  /-- bounds live on the `Variable` objects, outside the `Problem` -/
  bnd : Nat → Bnd
  /-- `_variables` (the list is `src.vars`) -/
  variables : Option (Model E)
  solverCache : Option (SolverCache E)
  lpCache : Option (LPCache E)
  /-- `_is_linear_cache` (the stored bool is `src.isLinear`) -/
  isLinear : Option (Model E)

/-- `Problem()` when the variables carry the bounds `bnd` -/
def init (bnd : Nat → Bnd) : PState E :=
  { model := ⟨none, .minimize, []⟩, bnd := bnd, variables := none, solverCache := none,
    lpCache := none, isLinear := none }

/-- a new `Problem` built directly with the model `m` (no cache populated) -/
def fresh (m : Model E) (bnd : Nat → Bnd) : PState E :=
  { model := m, bnd := bnd, variables := none, solverCache := none, lpCache := none, isLinear := none }

/-- `_invalidate_caches` -/
def invalidate (s : PState E) : PState E :=
  { s with variables := none, solverCache := none, lpCache := none, isLinear := none }

inductive Err | noObjective | nonLinear | constraintError
  deriving DecidableEq, Repr, Inhabited

/-- one call of a solver back end: which model each input was computed from, and the bounds
    that were passed -/
inductive Call (E : Type)
  /-- `linprog(c, A_ub, b_ub, A_eq, b_eq, bounds, method)`; data extracted from `data` -/
  | linprog (method : String) (data : Model E) (vars : List Nat) (bounds : List Bnd)
  /-- `minimize(fun, x0, method, jac, hess, bounds, constraints)`: callables compiled from `fns`,
      `hess` from the objective of `hess`, `x0` computed from `cur`, `bounds = cur` iff `passBounds` -/
  | minimize (method : String) (fns : Model E) (hess : Option (Model E)) (vars : List Nat)
      (cur : List Bnd) (passBounds : Bool)
  deriving DecidableEq, Repr

inductive Obs (E : Type)
  | unit
  | raised (e : Err)
  | vars (vs : List Nat)
  | nvars (n : Nat)
  | bounds (bs : List Bnd)
  /-- `Solution(status=FAILED, message="Problem has no variables")` -/
  | failedNoVars
  | solved (calls : List (Call E))
  deriving DecidableEq, Repr

inductive Op (E : Type)
  | minimize (e : E)
  | maximize (e : E)
  | subjectTo (c : Con E)
  | subjectToList (cs : List (Con E))
  /-- `subject_to(cs ++ [not a Constraint])`: the whole list is validated first, so
      `_validate_constraint` raises before anything is appended (repo commit 3152156) -/
  | subjectToBad (cs : List (Con E))
  | setLb (v : Nat) (b : Option Rat)
  | setUb (v : Nat) (b : Option Rat)
  /-- `solve(method)`; `viol` = the back end returned an accepted point that violates a constraint
      or a bound (an input from the environment: it triggers the SLSQP → trust-constr retry) -/
  | solve (method : String) (viol : Bool)
  | readVariables
  | readNVariables
  | getBounds
  deriving Repr

/-- `Problem.variables` -/
def getVars (ctx : Ctx E) (s : PState E) : PState E × List Nat :=
  match s.variables with
  | some src => (s, src.vars ctx)
  | none => ({ s with variables := some s.model }, s.model.vars ctx)

/-- `Problem._is_linear_problem` -/
def getIsLinear (ctx : Ctx E) (s : PState E) : PState E × Bool :=
  match s.isLinear with
  | some src => (s, src.isLinear ctx)
  | none => ({ s with isLinear := some s.model }, s.model.isLinear ctx)

/-- `solve_lp(problem, method)` (objective already known to be set) -/
def solveLP (ctx : Ctx E) (s : PState E) (method : String) : PState E × Obs E :=
  if !(s.model.isLinear ctx) then (s, .raised .nonLinear)
  else
    let r := getVars ctx s
    let s1 := r.1
    let vs := r.2
    let b := vs.map s1.bnd
    match s1.lpCache with
    | some lc =>
      -- cached LPData, `lp_data.bounds = extract_bounds(variables)`
      ({ s1 with lpCache := some { lc with bounds := b } }, .solved [.linprog method lc.src vs b])
    | none =>
      ({ s1 with lpCache := some ⟨s1.model, b⟩ }, .solved [.linprog method s1.model vs b])

def isHessianMethod (m : String) : Bool := Optyx.Generated.hessianMethods.contains m
def isBoundsMethod (m : String) : Bool := Optyx.Generated.boundsMethods.contains m

/-- one pass through `solve_scipy` up to and including the `minimize(...)` call, for a problem
    that has variables `vs` -/
def scipyOnce (s : PState E) (vs : List Nat) (method : String) : PState E × Call E :=
  let b := vs.map s.bnd
  -- `cache = problem._solver_cache` or `_build_solver_cache(problem, variables)`
  let sc : SolverCache E := match s.solverCache with
    | some sc => sc
    | none => ⟨s.model, b, none⟩
  -- `cache["bounds"] = bounds` (re-read)
  let sc := { sc with bounds := b }
  -- `if use_hessian and method in HESSIAN_METHODS: if "hess_fn" not in cache: compile from problem.objective`
  let sc := if isHessianMethod method then
      (match sc.hess with
       | some _ => sc
       | none => { sc with hess := some s.model })
    else sc
  ({ s with solverCache := some sc },
   .minimize method sc.src (if isHessianMethod method then sc.hess else none) vs b (isBoundsMethod method))

/-- `solve_scipy(problem, method)` including the SLSQP → trust-constr retry -/
def solveScipy (ctx : Ctx E) (s : PState E) (method : String) (viol : Bool) : PState E × Obs E :=
  let r := getVars ctx s
  let s1 := r.1
  let vs := r.2
  if vs.isEmpty then (s1, .failedNoVars)
  else
    let r1 := scipyOnce s1 vs method
    if viol && method == "SLSQP" then
      -- recursive call: `problem.variables` is cached now, the solver cache exists
      let r2 := scipyOnce r1.1 ((getVars ctx r1.1).2) "trust-constr"
      (r2.1, .solved [r1.2, r2.2])
    else (r1.1, .solved [r1.2])

/-- `Problem.solve(method)` -/
def solve (ctx : Ctx E) (s : PState E) (method : String) (viol : Bool) : PState E × Obs E :=
  match s.model.obj with
  | none => (s, .raised .noObjective)
  | some _ =>
    if method == "auto" then
      let r := getIsLinear ctx s
      if r.2 then solveLP ctx r.1 "highs"
      else solveScipy ctx r.1 (autoSelect ctx r.1.model) viol
    else if method == "linprog" then solveLP ctx s "highs"
    else if method == "highs" || method == "highs-ds" || method == "highs-ipm" then solveLP ctx s method
    else solveScipy ctx s method viol

def setLbF (bnd : Nat → Bnd) (v : Nat) (b : Option Rat) : Nat → Bnd :=
  fun u => if u = v then (b, (bnd u).2) else bnd u

def setUbF (bnd : Nat → Bnd) (v : Nat) (b : Option Rat) : Nat → Bnd :=
  fun u => if u = v then ((bnd u).1, b) else bnd u

def step (ctx : Ctx E) (s : PState E) : Op E → PState E × Obs E
  | .minimize e => (invalidate { s with model := { s.model with obj := some e, sense := .minimize } }, .unit)
  | .maximize e => (invalidate { s with model := { s.model with obj := some e, sense := .maximize } }, .unit)
  | .subjectTo c => (invalidate { s with model := { s.model with cons := s.model.cons ++ [c] } }, .unit)
  | .subjectToList cs => (invalidate { s with model := { s.model with cons := s.model.cons ++ cs } }, .unit)
  | .subjectToBad _ => (s, .raised .constraintError)
  | .setLb v b => ({ s with bnd := setLbF s.bnd v b }, .unit)
  | .setUb v b => ({ s with bnd := setUbF s.bnd v b }, .unit)
  | .solve m viol => solve ctx s m viol
  | .readVariables => let r := getVars ctx s; (r.1, .vars r.2)
  | .readNVariables => let r := getVars ctx s; (r.1, .nvars r.2.length)
  | .getBounds => let r := getVars ctx s; (r.1, .bounds (r.2.map r.1.bnd))

/-- a history: final state and the observations in order -/
def run (ctx : Ctx E) : PState E → List (Op E) → PState E × List (Obs E)
  | s, [] => (s, [])
  | s, op :: ops =>
    let r := step ctx s op
    let rest := run ctx r.1 ops
    (rest.1, r.2 :: rest.2)

/-- `subject_to(cs ++ [invalid])` before commit 3152156: the loop appended `cs`, then
    `_validate_constraint` raised — before `_invalidate_caches()` was reached -/
def subjectToHalfApplied (s : PState E) (cs : List (Con E)) : PState E × Obs E :=
  ({ s with model := { s.model with cons := s.model.cons ++ cs } }, .raised .constraintError)

/-- the pre-repair `solve_scipy` (finding F12): bounds taken from `cache["bounds"]`, written
    only by `_build_solver_cache` -/
def scipyOnceF12 (s : PState E) (vs : List Nat) (method : String) : PState E × Call E :=
  let b := vs.map s.bnd
  let sc : SolverCache E := match s.solverCache with
    | some sc => sc
    | none => ⟨s.model, b, none⟩
  ({ s with solverCache := some sc }, .minimize method sc.src none vs sc.bounds (isBoundsMethod method))

/-! ## Part 2 — parameters and derived artefacts -/

mutual
/-- replace every `Parameter` leaf by `τ p` -/
def mapPar (τ : Par → Expr) : Expr → Expr
  | .const c => .const c
  | .var v => .var v
  | .param p => τ p
  | .bin op l r => .bin op (mapPar τ l) (mapPar τ r)
  | .un op a => .un op (mapPar τ a)
  | .linComb cs v => .linComb cs (mapParVec τ v)
  | .vecSum v => .vecSum v
  | .exprSum es => .exprSum (mapParList τ es)
  | .dot l r => .dot (mapParVec τ l) (mapParVec τ r)
  | .l2 v => .l2 (mapParVec τ v)
  | .l1 v => .l1 (mapParVec τ v)
  | .quad v q => .quad (mapParVec τ v) q
  | .powSum v k => .powSum v k
  | .unSum v op => .unSum v op
  | .matSumV m => .matSumV m
  | .matSumE es => .matSumE (mapParList τ es)
  | .frob m => .frob m
def mapParVec (τ : Par → Expr) : Vec → Vec
  | .vars v => .vars v
  | .exprs es => .exprs (mapParList τ es)
def mapParList (τ : Par → Expr) : ExprList → ExprList
  | .nil => .nil
  | .cons e t => .cons (mapPar τ e) (mapParList τ t)
end

/-- the model in which every `Parameter p` is `Constant(σ p)` -/
def substParams (σ : Nat → Rat) : Expr → Expr := mapPar fun p => .const (.rat (σ p.oid))

mutual
def hasParam : Expr → Bool
  | .param _ => true
  | .const _ | .var _ | .vecSum _ | .powSum _ _ | .unSum _ _ | .matSumV _ | .frob _ => false
  | .bin _ l r => hasParam l || hasParam r
  | .un _ a => hasParam a
  | .linComb _ v | .l2 v | .l1 v | .quad v _ => hasParamVec v
  | .exprSum es | .matSumE es => hasParamList es
  | .dot l r => hasParamVec l || hasParamVec r
def hasParamVec : Vec → Bool
  | .vars _ => false
  | .exprs es => hasParamList es
def hasParamList : ExprList → Bool
  | .nil => false
  | .cons e t => hasParam e || hasParamList t
end

/-- `isinstance(e, Constant)` -/
def asConst : Expr → Option Cst
  | .const c => some c
  | _ => none

/-- the pattern test of `_is_scaled_variable_pattern` for one row element:
    `Constant(c) * var` or `var * Constant(c)` with `is var` (object identity) -/
def scaledElem (v : Var) : Expr → Option Cst
  | .bin .mul (.const c) (.var u) => if u = v then some c else none
  | .bin .mul (.var u) (.const c) => if u = v then some c else none
  | _ => none

/-- the compiled Jacobian of one expression (`compile_jacobian([e], vs)`, scalar fragment:
    every `jacobian_row` returns `None` there, so the row is `[gradient(e, v) for v in vs]`) -/
inductive JacArt
  /-- fast path 1: `const_jac` pre-computed — only literal `Constant`s get here -/
  | constant (row : List Cst)
  /-- fast path 2: `(scale * x)` -/
  | scaled (c : Cst)
  /-- standard path: one compiled closure per element -/
  | general (row : List Expr)


def allConst : List Expr → Option (List Cst)
  | [] => some []
  | e :: t => match asConst e, allConst t with
    | some c, some cs => some (c :: cs)
    | _, _ => none

/-- `scale` of `_is_scaled_variable_pattern` (`None` on an empty row or on a mismatch) -/
def scaledPattern : List Expr → List Var → Option Cst → Option Cst
  | [], [], acc => acc
  | e :: es, v :: vs, acc =>
    match scaledElem v e with
    | none => none
    | some c =>
      match acc with
      | none => scaledPattern es vs (some c)
      | some c0 => if c0 = c then scaledPattern es vs acc else none
  | _, _, _ => none

/-- `compile_jacobian([e], vs)` — note: no parameter store among the arguments -/
def buildJac (e : Expr) (vs : List Var) : JacArt :=
  let row := vs.map fun v => grad v e
  match allConst row with
  | some cs => .constant cs
  | none =>
    match scaledPattern row vs none with
    | some c => .scaled c
    | none => .general row

def JacArt.path : JacArt → String
  | .constant _ => "constant_jacobian_fn"
  | .scaled _ => "scaled_variable_jacobian_fn"
  | .general _ => "jacobian_fn"

/-- `compile_hessian(e, vs)` general path: upper-triangle entries `gradient(gradient(e, vi), vj)`,
    mirrored -/
def buildHess (e : Expr) (vs : List Var) : List (List Expr) :=
  (List.range vs.length).map fun i =>
    (List.range vs.length).map fun j =>
      let a := min i j
      let b := max i j
      hessEntry e (vs.getD a default) (vs.getD b default)

structure PSt where
  σ : Nat → Rat
  /-- `compile_expression(e, vs)`: the closure tree is the expression itself; a `param` leaf is
      `lambda x, p=param: p.value` -/
  fn : Option Expr
  jac : Option JacArt
  hess : Option (List (List Expr))

def pinit (σ : Nat → Rat) : PSt := { σ := σ, fn := none, jac := none, hess := none }

inductive POp (α : Type)
  | set (oid : Nat) (v : Rat)
  | evaluate (ρ : String → α)
  | callFn (ρ : String → α)
  | callJac (ρ : String → α)
  | callHess (ρ : String → α)

section
variable {α : Type} [NumAlg α]

/-- the store as seen by `denote` -/
def storeOf (σ : Nat → Rat) : Nat → α := fun o => NumAlg.ofRat (σ o)

def JacArt.call (σ : Nat → Rat) (ρ : String → α) (vs : List Var) : JacArt → List α
  | .constant cs => cs.map NumAlg.cst
  | .scaled c => vs.map fun v => NumAlg.mul (NumAlg.cst c) (ρ v.name)
  | .general row => row.map fun d => denote ρ (storeOf σ) d

/-- one operation on the model expression `e` compiled for the variables `vs` -/
def pstep (e : Expr) (vs : List Var) (s : PSt) : POp α → PSt × List α
  | .set o v => ({ s with σ := fun k => if k = o then v else s.σ k }, [])
  | .evaluate ρ => (s, [denote ρ (storeOf s.σ) e])
  | .callFn ρ =>
    let ir := match s.fn with | some ir => ir | none => e
    ({ s with fn := some ir }, [denote ρ (storeOf s.σ) ir])
  | .callJac ρ =>
    let j := match s.jac with | some j => j | none => buildJac e vs
    ({ s with jac := some j }, j.call s.σ ρ vs)
  | .callHess ρ =>
    let h := match s.hess with | some h => h | none => buildHess e vs
    ({ s with hess := some h }, (h.map fun row => row.map fun d => denote ρ (storeOf s.σ) d).flatten)

def prun (e : Expr) (vs : List Var) : PSt → List (POp α) → PSt × List (List α)
  | s, [] => (s, [])
  | s, op :: ops =>
    let r := pstep e vs s op
    let rest := prun e vs r.1 ops
    (rest.1, r.2 :: rest.2)

end

end Optyx.Py.State
