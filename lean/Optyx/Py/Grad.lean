/-
  Optyx.Py.Grad — executable model of `optyx.core.autodiff.gradient`.

  * the scalar rule templates (`binaryRule`, `unaryRule`) and the six simplifiers are
    NOT written here: they are `Optyx.Generated.*`, regenerated from
    `_gradient_cached` / `_simplify_*` on every run;
  * the registered vector rules of `_register_vector_gradient_rules` are modelled by
    hand below, mirroring the Python control flow (first-match loops, left folds with
    an accumulator, the `isinstance(vec, VectorVariable)` split);
  * `grad` is the recursive differentiator (`gradient` → registered rule or
    `_gradient_cached`); the explicit-stack `_gradient_iterative` is `Py.GradIter`.
-/
import Optyx.Syntax
import Optyx.Generated.GradRules

namespace Optyx.Py
open Optyx Optyx.Generated

/-- `for i, var in enumerate(vs): if var.name == wrt.name: return i` -/
def findName (x : String) : List Var → Option Nat
  | [] => none
  | v :: t => if v.name == x then some 0 else (findName x t).map (· + 1)

def hasName (x : String) (vs : List Var) : Bool := vs.any (·.name == x)

def countName (x : String) (vs : List Var) : Nat := (vs.filter (·.name == x)).length

def Vec.elems : Vec → List Expr
  | .vars v => v.vars.map Expr.var
  | .exprs es => es.toList

/-- `Q + Q.T` (square `Q`; rows of unequal length are outside `WF`). -/
def qsym (q : List (List Rat)) : List (List Rat) :=
  (List.range q.length).map fun i =>
    (List.range q.length).map fun j =>
      ((q.getD i []).getD j 0) + ((q.getD j []).getD i 0)

/-- gradient_linear_combination -/
def linCombRule (wrt : Var) (cs : List Rat) (v : Vec) (dv : List Expr) : Expr :=
  match v with
  | .vars vv =>
    match findName wrt.name vv.vars with
    | some i => Expr.c (cs.getD i 0)
    | none => Expr.c 0
  | .exprs _ =>
    (cs.zip dv).foldl (fun acc (cd : Rat × Expr) => sAdd acc (sMul (Expr.c cd.1) cd.2)) (Expr.c 0)

/-- gradient_vector_sum -/
def vecSumRule (wrt : Var) (v : VVar) : Expr :=
  if hasName wrt.name v.vars then Expr.c 1 else Expr.c 0

/-- gradient_vector_expression_sum (also the MatrixExpression branch of gradient_matrix_sum) -/
def exprSumRule (dv : List Expr) : Expr :=
  dv.foldl (fun acc d => sAdd acc d) (Expr.c 0)

/-- gradient_dot_product -/
def dotRule (wrt : Var) (l r : Vec) (dl dr : List Expr) : Expr :=
  let le := Vec.elems l
  let re := Vec.elems r
  match l, r with
  | .vars lv, .vars rv =>
    match findName wrt.name lv.vars, findName wrt.name rv.vars with
    | some li, some ri =>
      if lv.oid == rv.oid then sMul (Expr.c 2) (.var wrt)
      else sAdd (re.getD li (Expr.c 0)) (le.getD ri (Expr.c 0))
    | some li, none => re.getD li (Expr.c 0)
    | none, some ri => le.getD ri (Expr.c 0)
    | none, none => Expr.c 0
  | _, _ =>
    ((le.zip re).zip (dl.zip dr)).foldl
      (fun acc (p : (Expr × Expr) × (Expr × Expr)) =>
        sAdd acc (sAdd (sMul p.1.1 p.2.2) (sMul p.1.2 p.2.1))) (Expr.c 0)

/-- gradient_l2_norm (`self` is the L2Norm node itself) -/
def l2Rule (wrt : Var) (v : Vec) (dv : List Expr) (self : Expr) : Expr :=
  match v with
  | .vars vv => if hasName wrt.name vv.vars then sDiv (.var wrt) self else Expr.c 0
  | .exprs es =>
    (es.toList.zip dv).foldl
      (fun acc (p : Expr × Expr) => sAdd acc (sMul (sDiv p.1 self) p.2)) (Expr.c 0)

/-- gradient_l1_norm -/
def l1Rule (wrt : Var) (v : Vec) (dv : List Expr) : Expr :=
  match v with
  | .vars vv =>
    if hasName wrt.name vv.vars then sDiv (.var wrt) (.un .abs (.var wrt)) else Expr.c 0
  | .exprs es =>
    (es.toList.zip dv).foldl
      (fun acc (p : Expr × Expr) => sAdd acc (sMul (sDiv p.1 (.un .abs p.1)) p.2)) (Expr.c 0)

/-- inner loop of gradient_quadratic_form: `qf_i = Σ_j Q_sym[i,j] * f_j`, skipping zeros -/
def quadInner (row : List Rat) (elems : List Expr) : Expr :=
  (row.zip elems).foldl
    (fun acc (p : Rat × Expr) => if p.1 != 0 then sAdd acc (sMul (Expr.c p.1) p.2) else acc)
    (Expr.c 0)

/-- gradient_quadratic_form -/
def quadRule (wrt : Var) (v : Vec) (q : List (List Rat)) (dv : List Expr) : Expr :=
  let qs := qsym q
  match v with
  | .vars vv =>
    match findName wrt.name vv.vars with
    | some i => .linComb (qs.getD i []) v
    | none => Expr.c 0
  | .exprs es =>
    let elems := es.toList
    (qs.zip dv).foldl
      (fun acc (p : List Rat × Expr) => sAdd acc (sMul (quadInner p.1 elems) p.2)) (Expr.c 0)

/-- gradient_vector_power_sum (returns the vector's own element object, not `wrt`) -/
def powSumRule (wrt : Var) (v : VVar) (k : Rat) : Expr :=
  match v.vars.find? (·.name == wrt.name) with
  | some x =>
    if k == 1 then Expr.c 1
    else if k == 2 then .bin .mul (Expr.c 2) (.var x)
    else .bin .mul (Expr.c k) (.bin .pow (.var x) (Expr.c (k - 1)))
  | none => Expr.c 0

/- the per-operator table of gradient_vector_unary_sum is `Optyx.Generated.unSumDeriv`,
   regenerated from the source (the same table of `VectorUnarySum.jacobian_row` is
   `Optyx.Generated.unSumJacRow`). -/

/-- gradient_vector_unary_sum -/
def unSumRule (wrt : Var) (v : VVar) (op : VOp) : Expr :=
  match v.vars.find? (·.name == wrt.name) with
  | some x => unSumDeriv op (.var x)
  | none => Expr.c 0

/-- gradient_matrix_sum, MatrixVariable branch -/
def matSumVRule (wrt : Var) (m : MVar) : Expr :=
  Expr.c (countName wrt.name m.flat : Nat)

/-- gradient_frobenius_norm -/
def frobRule (wrt : Var) (m : MVar) (self : Expr) : Expr :=
  let cnt := countName wrt.name m.flat
  if cnt == 0 then Expr.c 0
  else sDiv (sMul (Expr.c (cnt : Nat)) (.var wrt)) self

mutual
/-- `gradient(expr, wrt)` on a tree shallower than the switch threshold. -/
def grad (wrt : Var) : Expr → Expr
  | .const _ => Expr.c 0
  | .param _ => Expr.c 0
  | .var v => if v.name == wrt.name then Expr.c 1 else Expr.c 0
  | .bin op l r => binaryRule op l r (grad wrt l) (grad wrt r) (.bin op l r)
  | .un op a => unaryRule op a (grad wrt a) (.un op a)
  | .linComb cs v => linCombRule wrt cs v (gradVec wrt v)
  | .vecSum v => vecSumRule wrt v
  | .exprSum es => exprSumRule (gradList wrt es)
  | .dot l r => dotRule wrt l r (gradVec wrt l) (gradVec wrt r)
  | .l2 v => l2Rule wrt v (gradVec wrt v) (.l2 v)
  | .l1 v => l1Rule wrt v (gradVec wrt v)
  | .quad v q => quadRule wrt v q (gradVec wrt v)
  | .powSum v k => powSumRule wrt v k
  | .unSum v op => unSumRule wrt v op
  | .matSumV m => matSumVRule wrt m
  | .matSumE es => exprSumRule (gradList wrt es)
  | .frob m => frobRule wrt m (.frob m)
/-- element gradients of a vector operand (`gradient(elem, wrt)` for each element) -/
def gradVec (wrt : Var) : Vec → List Expr
  | .vars v => v.vars.map fun y => if y.name == wrt.name then Expr.c 1 else Expr.c 0
  | .exprs es => gradList wrt es
def gradList (wrt : Var) : ExprList → List Expr
  | .nil => []
  | .cons e t => grad wrt e :: gradList wrt t
end

/-- `compute_hessian` entry: `gradient(gradient(e, vi), vj)` -/
def hessEntry (e : Expr) (vi vj : Var) : Expr := grad vj (grad vi e)

end Optyx.Py
