/-
  Optyx.Py.PostSupport — the Python built-ins on numbers that the translated straight-line code
  (`harness/py2lean_post.py`: `Generated/ScipyPost.lean`, `Generated/ConstraintFns.lean`) refers to.
-/
namespace Optyx.Py.Post

/-- Python `abs` on a real number -/
def postAbs (a : Rat) : Rat := if a < 0 then -a else a
/-- Python `max(a, b)`: `a` unless `b > a` -/
def postMax (a b : Rat) : Rat := if a < b then b else a
/-- Python `min(a, b)`: `a` unless `b < a` -/
def postMin (a b : Rat) : Rat := if b < a then b else a

end Optyx.Py.Post
