/-
  Optyx.Py.LPPipeline — executable model of the glue of `optyx.solvers.lp_solver.solve_lp`
  around the `scipy.optimize.linprog` call (the solver itself is a *parameter*):

    lpArgs    what is handed to linprog: cost negated for maximise, matrices passed only when
              both halves exist, bounds passed when the list is non-empty, method default "highs"
    lpPost    what is made of the result: status map (success first, then codes 2/3/1),
              values keyed by the LP's variable names, objective un-negated + constant term

  Polymorphic in the number type so that the driver runs it over `Rat` and the theorems are
  stated over any linearly ordered field.
-/
import Optyx.Syntax
import Optyx.Generated.Tables

namespace Optyx.Py.LPP

structure LPData (K : Type) where
  c      : List K
  c0     : K
  isMax  : Bool
  aub    : Option (List (List K))
  bub    : Option (List K)
  aeq    : Option (List (List K))
  beq    : Option (List K)
  bounds : List (Option K × Option K)
  names  : List String

structure LinprogArgs (K : Type) where
  c      : List K
  aub    : Option (List (List K))
  bub    : Option (List K)
  aeq    : Option (List (List K))
  beq    : Option (List K)
  bounds : Option (List (Option K × Option K))
  method : String

structure LinprogResult (K : Type) where
  success : Bool
  status  : Nat
  x       : Option (List K)
  fn      : Option K

inductive Status | optimal | infeasible | unbounded | maxIterations | failed | notSolved
  deriving DecidableEq, Repr

def Status.name : Status → String
  | .optimal => "OPTIMAL" | .infeasible => "INFEASIBLE" | .unbounded => "UNBOUNDED"
  | .maxIterations => "MAX_ITERATIONS" | .failed => "FAILED" | .notSolved => "NOT_SOLVED"

structure LPSolution (K : Type) where
  status    : Status
  objective : Option K
  values    : List (String × K)

variable {K : Type}

/-- `solve_lp`: building `linprog_kwargs` (user kwargs not modelled: none are passed by `solve`) -/
def lpArgs [Neg K] (d : LPData K) (method : Option String) : LinprogArgs K :=
  { c := if d.isMax then d.c.map (fun a => -a) else d.c
    aub := if d.aub.isSome && d.bub.isSome then d.aub else none
    bub := if d.aub.isSome && d.bub.isSome then d.bub else none
    aeq := if d.aeq.isSome && d.beq.isSome then d.aeq else none
    beq := if d.aeq.isSome && d.beq.isSome then d.beq else none
    bounds := if d.bounds.isEmpty then none else some d.bounds
    method := method.getD "highs" }

/-- the `if result.success … elif result.status == 2 …` chain -/
def lpStatus (success : Bool) (status : Nat) : Status :=
  if success then .optimal
  else if status == 2 then .infeasible
  else if status == 3 then .unbounded
  else if status == 1 then .maxIterations
  else .failed

/-- `solve_lp` after `linprog` returned -/
def lpPost [Neg K] [Add K] (d : LPData K) (r : LinprogResult K) : LPSolution K :=
  { status := lpStatus r.success r.status
    values := match r.x with
      | some x => d.names.zip x
      | none => []
    objective := r.fn.map fun f => (if d.isMax then -f else f) + d.c0 }

/-- the whole LP path for a given solver -/
def solveLP [Neg K] [Add K] (linprog : LinprogArgs K → LinprogResult K) (d : LPData K)
    (method : Option String) : LPSolution K :=
  lpPost d (linprog (lpArgs d method))

end Optyx.Py.LPP
