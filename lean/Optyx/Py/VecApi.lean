/-
  Optyx.Py.VecApi — executable model of the vector / matrix modelling API of
  /repo/src/optyx/core/vectors.py and core/matrices.py (the code as it is today, after the
  `fix:` commits), as total functions on the shared syntax (`Var`, `VVar`, `Expr`, `Vec`).

  Conventions
  * every Python exception is an `Err` constructor; `Err.outsideModel` is *not* a Python
    exception: it marks inputs for which the real code builds an object the syntax has no
    constructor for (e.g. `DotProduct(x, ndarray)`); no theorem speaks about those and the
    harness never feeds them (they are listed in the builder's report);
  * Python object identity: functions that create an object receive the fresh object id(s)
    as an argument (`oid`, `base`), so that identity tests (`a is b`) are `oid` comparisons;
  * NumPy arrays / Python lists of numbers are exact rationals; `np.asarray(list)` turns a
    (rectangular) list into the array of the same shape.
  Core Lean only.
-/
import Optyx.Syntax

namespace Optyx.Py.Api
open Optyx

inductive Err
  | dimensionMismatch    -- optyx.core.errors.DimensionMismatchError
  | wrongDimensionality  -- WrongDimensionalityError
  | invalidOperation     -- InvalidOperationError
  | emptyContainer       -- EmptyContainerError
  | squareMatrix         -- SquareMatrixError
  | invalidSize          -- InvalidSizeError
  | index                -- IndexError
  | typeError            -- TypeError
  | valueError           -- ValueError
  | outsideModel         -- (not an exception) the code builds something outside the syntax
  deriving DecidableEq, Repr, Inhabited

def Err.show : Err → String
  | .dimensionMismatch => "DimensionMismatchError"
  | .wrongDimensionality => "WrongDimensionalityError"
  | .invalidOperation => "InvalidOperationError"
  | .emptyContainer => "EmptyContainerError"
  | .squareMatrix => "SquareMatrixError"
  | .invalidSize => "InvalidSizeError"
  | .index => "IndexError"
  | .typeError => "TypeError"
  | .valueError => "ValueError"
  | .outsideModel => "outside-model"

/-! ### CPython slices (`PySlice_AdjustIndices` + list slicing) -/

structure PySlice where
  start : Option Int := none
  stop  : Option Int := none
  step  : Option Int := none
  deriving DecidableEq, Repr, Inhabited

/-- `PySlice_AdjustIndices` for a sequence of length `n` and a non-zero `step`. -/
def sliceAdjust (n : Int) (start stop : Option Int) (step : Int) : Int × Int :=
  let lower : Int := if step < 0 then -1 else 0
  let upper : Int := if step < 0 then n - 1 else n
  let clamp (v : Int) : Int :=
    if v < 0 then (if v + n < lower then lower else v + n) else (if v > upper then upper else v)
  let s := match start with | none => (if step < 0 then upper else lower) | some v => clamp v
  let e := match stop with | none => (if step < 0 then lower else upper) | some v => clamp v
  (s, e)

/-- number of selected positions (`PySlice_AdjustIndices` return value) -/
def sliceLen (s e step : Int) : Nat :=
  if step > 0 then (if s < e then ((e - s - 1) / step + 1).toNat else 0)
  else (if e < s then ((s - e - 1) / (-step) + 1).toNat else 0)

/-- the positions `list[slice]` reads, in order; `ValueError` for `step == 0` -/
def sliceIdx (n : Nat) (sl : PySlice) : Except Err (List Nat) :=
  let step := sl.step.getD 1
  if step == 0 then .error .valueError
  else
    let (s, e) := sliceAdjust n sl.start sl.stop step
    .ok ((List.range (sliceLen s e step)).map fun (k : Nat) => (s + step * (k : Int)).toNat)

def pyGetSlice {α} (l : List α) (sl : PySlice) : Except Err (List α) :=
  match sliceIdx l.length sl with
  | .error e => .error e
  | .ok idx => .ok (idx.filterMap fun i => l[i]?)

/-- `key.start or 0`, `key.stop or size` as they appear in the f-strings naming views -/
def orDefault (o : Option Int) (d : Int) : Int :=
  match o with
  | none => d
  | some v => if v == 0 then d else v

/-- Python's normalisation of a possibly negative integer index + range check -/
def normIndex (n : Nat) (k : Int) : Except Err Nat :=
  let k' := if k < 0 then (n : Int) + k else k
  if k' < 0 || k' ≥ (n : Int) then .error .index else .ok k'.toNat

/-! ### operands of the overloaded operators -/

/-- `MatrixVariable` (a view or a freshly constructed matrix) -/
structure MatV where
  name : String
  oid  : Nat := 0
  rows : List (List Var)
  symmetric : Bool := false
  isTranspose : Bool := false
  deriving DecidableEq, Repr, Inhabited

def MatV.nrows (m : MatV) : Nat := m.rows.length
def MatV.ncols (m : MatV) : Nat := (m.rows.head?.map List.length).getD 0
def MatV.toMVar (m : MatV) : MVar := ⟨m.name, m.oid, m.rows⟩

/-- what can stand on the other side of an operator -/
inductive Operand
  | pyNum (q : Rat)                         -- Python int / float (np.float64 is a float subclass)
  | npNum (q : Rat)                         -- NumPy scalar that is not a Python int/float (np.int64, np.float32)
  | arr0 (q : Rat)                          -- 0-d ndarray
  | arr1 (xs : List Rat)                    -- 1-d ndarray
  | arr2 (rows : List (List Rat))           -- 2-d ndarray (rectangular, ≥ 1 column)
  | arrN (ndim len : Nat)                   -- ndarray with ndim ≥ 3 (only ndim and len() matter)
  | list1 (xs : List Rat)                   -- Python list of numbers
  | list2 (rows : List (List Rat))          -- nested (rectangular) list
  | scalar (e : Expr)                       -- scalar Expression
  | vvar (v : VVar)                         -- VectorVariable
  | vexpr (es : List Expr)                  -- VectorExpression
  | mvp (q : List (List Rat)) (v : Vec)     -- MatrixVectorProduct (a VectorExpression subclass)
  | epow (v : VVar) (k : Rat)               -- ElementwisePower
  | eun (v : VVar) (op : VOp)               -- ElementwiseUnary
  | mvar (m : MatV)                         -- MatrixVariable
  | mexpr (rows : List (List Expr))         -- MatrixExpression
  deriving Inhabited

def cst (q : Rat) : Expr := .const (.rat q)

def VVar.elems (v : VVar) : List Expr := v.vars.map Expr.var

def vecOf (es : List Expr) : Vec := .exprs (ExprList.ofList es)

def Vec.elems' : Vec → List Expr
  | .vars v => VVar.elems v
  | .exprs es => es.toList

def Vec.size' (v : Vec) : Nat := (Vec.elems' v).length

/-- `MatrixVectorProduct.__init__`: one `LinearCombination(matrix[i, :], vector)` per row -/
def mvpElems (q : List (List Rat)) (v : Vec) : List Expr := q.map fun row => Expr.linComb row v

/-- `ElementwisePower.__iter__` -/
def epowElems (v : VVar) (k : Rat) : List Expr := v.vars.map fun x => Expr.bin .pow (.var x) (cst k)

/-- elements of a vector-like *left* operand (`VectorVariable` / `ElementwisePower` / `VectorExpression`) -/
inductive VecLike
  | vvar (v : VVar)
  | vexpr (es : List Expr)
  | epow (v : VVar) (k : Rat)
  deriving Inhabited

def VecLike.elems : VecLike → List Expr
  | .vvar v => VVar.elems v
  | .vexpr es => es
  | .epow v k => epowElems v k

/-- the `np.asarray(right)` view of an ndarray / list operand: `(ndim, 1-d data, 2-d data)` -/
inductive ArrView
  | d0 (q : Rat) | d1 (xs : List Rat) | d2 (rows : List (List Rat)) | dN (ndim : Nat)

def Operand.asArrayOrList : Operand → Option ArrView
  | .arr0 q => some (.d0 q)
  | .arr1 xs | .list1 xs => some (.d1 xs)
  | .arr2 r | .list2 r => some (.d2 r)
  | .arrN n _ => some (.dN n)
  | _ => none

def ArrView.ndim : ArrView → Nat
  | .d0 _ => 0 | .d1 _ => 1 | .d2 _ => 2 | .dN n => n

/-- `len(x)` for the operand kinds that have one (`TypeError` otherwise) -/
def Operand.len? : Operand → Option Nat
  | .arr1 xs | .list1 xs => some xs.length
  | .arr2 r | .list2 r => some r.length
  | .arrN _ n => some n
  | .vvar v => some v.vars.length
  | .vexpr es => some es.length
  | .mvp q _ => some q.length
  | .mvar m => some m.nrows
  | _ => none

/-! ### `VectorVariable` construction, indexing, slicing -/

/-- `VectorVariable(name, size)`: elements get oids `base … base+size-1`, the vector `base+size`. -/
def mkVector (name : String) (size : Int) (base : Nat) : Except Err (VVar × Nat) :=
  if size ≤ 0 then .error .invalidSize
  else
    let n := size.toNat
    let vars := (List.range n).map fun i => (⟨name ++ "[" ++ toString i ++ "]", base + i⟩ : Var)
    .ok (⟨name, base + n, vars⟩, base + n + 1)

/-- the three key kinds `VectorVariable.__getitem__` distinguishes -/
inductive Key
  | int (k : Int)
  | slice (s : PySlice)
  | other                 -- neither `int` nor `slice` (float, tuple, np.int64, …)
  deriving Inhabited

/-- `VectorVariable.__getitem__` (int branch) -/
def vIndex (v : VVar) (k : Int) : Except Err Var :=
  match normIndex v.vars.length k with
  | .error e => .error e
  | .ok i => match v.vars[i]? with
    | some x => .ok x
    | none => .error .index

/-- `VectorVariable.__getitem__` (slice branch); `oid` = identity of the new view -/
def vSlice (v : VVar) (sl : PySlice) (oid : Nat) : Except Err VVar :=
  match pyGetSlice v.vars sl with
  | .error e => .error e
  | .ok [] => .error .index
  | .ok vs =>
    .ok ⟨v.name ++ "[" ++ toString (orDefault sl.start 0) ++ ":"
          ++ toString (orDefault sl.stop v.vars.length) ++ "]", oid, vs⟩

inductive Item | var (x : Var) | vec (v : VVar)

def vGetItem (v : VVar) (k : Key) (oid : Nat) : Except Err Item :=
  match k with
  | .int i => (vIndex v i).map Item.var
  | .slice s => (vSlice v s oid).map Item.vec
  | .other => .error .invalidOperation

/-- `VectorExpression.__getitem__` (integers only) -/
def veIndex (es : List Expr) (k : Int) : Except Err Expr :=
  match normIndex es.length k with
  | .error e => .error e
  | .ok i => match es[i]? with
    | some x => .ok x
    | none => .error .index

/-! ### element-wise arithmetic -/

/-- `VectorExpression(result_exprs)` -/
def mkVExpr (es : List Expr) : Except Err (List Expr) :=
  if es.isEmpty then .error .emptyContainer else .ok es

/-- right-operand elements of `_vector_binary_op` (the `isinstance` chain) -/
def vbinRight (n : Nat) : Operand → Except Err (List Expr)
  | .pyNum q => .ok (List.replicate n (cst q))
  | .vvar w => if w.vars.length != n then .error .dimensionMismatch else .ok (VVar.elems w)
  | .vexpr es => if es.length != n then .error .dimensionMismatch else .ok es
  | .mvp q v => if q.length != n then .error .dimensionMismatch else .ok (mvpElems q v)
  | .epow w k => if w.vars.length != n then .error .dimensionMismatch else .ok (epowElems w k)
  | .arr1 xs | .list1 xs =>
    if xs.length != n then .error .dimensionMismatch else .ok (xs.map cst)
  | .arr0 _ | .arr2 _ | .list2 _ | .arrN _ _ => .error .wrongDimensionality
  | .npNum _ | .scalar _ | .eun _ _ | .mvar _ | .mexpr _ => .error .invalidOperation

/-- `_vector_binary_op(left, right, op)` → the elements of the resulting `VectorExpression` -/
def vectorBinaryOp (left : VecLike) (right : Operand) (op : BinOp) : Except Err (List Expr) :=
  let ls := left.elems
  match vbinRight ls.length right with
  | .error e => .error e
  | .ok rs => mkVExpr (List.zipWith (fun l r => Expr.bin op l r) ls rs)

/-- `_vector_reflected_op(vector, other, op)`  (`other op vector`, op ∈ {-, /}) -/
def vectorReflectedOp (vector : VecLike) (other : Operand) (op : BinOp) : Except Err (List Expr) :=
  let es := vector.elems
  let build (lefts : List Expr) := mkVExpr (List.zipWith (fun l e => Expr.bin op l e) lefts es)
  match other with
  | .arr1 xs | .list1 xs =>
    if xs.length != es.length then .error .dimensionMismatch else build (xs.map cst)
  | .arr2 _ | .list2 _ | .arrN _ _ => .error .wrongDimensionality
  | .pyNum q | .npNum q | .arr0 q => build (List.replicate es.length (cst q))
  | .scalar e => build (List.replicate es.length e)
  | _ => .error .outsideModel   -- `Constant(np.asarray(<optyx container>))`: never reached through an operator

/-- `-x` on a vector -/
def vectorNeg (v : VecLike) : Except Err (List Expr) :=
  mkVExpr (v.elems.map fun e => Expr.un .neg e)

/-- `float(power)` in `ElementwisePower.__init__` -/
def floatOf : Operand → Except Err Rat
  | .pyNum q | .npNum q | .arr0 q => .ok q
  | _ => .error .typeError

/-- `VectorVariable.__pow__` -/
def vvarPow (v : VVar) (k : Operand) : Except Err (VVar × Rat) :=
  (floatOf k).map fun q => (v, q)

/-! ### reductions and products -/

inductive SumArg | vvar (v : VVar) | vexpr (es : List Expr) | epow (v : VVar) (k : Rat) | eun (v : VVar) (op : VOp)

/-- `.sum()` of the four vector classes -/
def vectorSum : SumArg → Expr
  | .vvar v => .vecSum v
  | .vexpr es => .exprSum (ExprList.ofList es)
  | .epow v k => .powSum v k
  | .eun v op => .unSum v op

def Operand.toVec? : Operand → Option Vec
  | .vvar v => some (.vars v)
  | .vexpr es => some (vecOf es)
  | .mvp q v => some (vecOf (mvpElems q v))
  | _ => none

/-- `DotProduct(left, right)` for a vector `left` -/
def mkDot (left : Vec) (right : Operand) : Except Err Expr :=
  match right.len? with
  | none => .error .typeError                      -- len() of an unsized object
  | some m =>
    if Vec.size' left != m then .error .dimensionMismatch
    else match right.toVec? with
      | some r => .ok (.dot left r)
      | none => .error .outsideModel                -- DotProduct(x, ndarray | list | MatrixVariable): builds, cannot evaluate

/-- the identity test of `VectorVariable.dot`: `other.vector is self or (same length and all(a is b))` -/
def sameElements (self other : VVar) : Bool :=
  other.oid == self.oid ||
    (other.vars.length == self.vars.length &&
      (List.zipWith (fun (a b : Var) => a.oid == b.oid) other.vars self.vars).all id)

/-- `QuadraticForm(vector, matrix)` for a 2-d array `matrix` -/
def mkQuadArr (v : Vec) (q : List (List Rat)) : Except Err Expr :=
  let c := (q.head?.map List.length).getD 0
  if q.length != c then .error .squareMatrix
  else if q.length != Vec.size' v then .error .dimensionMismatch
  else .ok (.quad v q)

def mkQuad (v : Vec) (matrix : Operand) : Except Err Expr :=
  match matrix.asArrayOrList with
  | some (.d2 q) => mkQuadArr v q
  | some _ => .error .wrongDimensionality
  | none => .error .outsideModel

/-- `VectorVariable.dot(other)` including the `x.dot(A @ x)` → `QuadraticForm(x, A)` rewrite -/
def vvarDot (self : VVar) (other : Operand) : Except Err Expr :=
  match other with
  | .mvp q (.vars u) =>
    if sameElements self u then mkQuadArr (.vars self) q else mkDot (.vars self) other
  | _ => mkDot (.vars self) other

/-- `VectorExpression.dot(other)` (no rewrite) -/
def vexprDot (self : List Expr) (other : Operand) : Except Err Expr := mkDot (vecOf self) other

/-- `LinearCombination(coefficients, vector)` -/
def mkLinComb (cs : List Rat) (v : Vec) : Except Err Expr :=
  if cs.length != Vec.size' v then .error .dimensionMismatch else .ok (.linComb cs v)

/-- `MatrixVectorProduct(matrix, vector)` → (matrix, vector) of the product object -/
def mkMVP (q : List (List Rat)) (v : Vec) : Except Err (List (List Rat) × Vec) :=
  let c := (q.head?.map List.length).getD 0
  if c != Vec.size' v then .error .dimensionMismatch else .ok (q, v)

/-- `self @ other` for a `VectorVariable` (`isVVar`) or `VectorExpression` -/
def vecMatmul (self : Vec) (isVVar : Bool) (other : Operand) : Except Err Expr :=
  match other with
  | .vvar _ | .vexpr _ | .mvp _ _ => mkDot self other
  | .mvar _ => .error .invalidOperation      -- VectorVariable: explicit raise; VectorExpression: MatrixVariable.__rmatmul__ raises the same class
  | .arr1 xs | .list1 xs => mkLinComb xs self
  | .arr0 _ | .arr2 _ | .list2 _ | .arrN _ _ => .error .wrongDimensionality
  | .pyNum _ | .npNum _ | .scalar _ | .epow _ _ | .eun _ _ | .mexpr _ =>
    let _ := isVVar
    .error .typeError                        -- NotImplemented on both sides

inductive VecResult | scalar (e : Expr) | mvp (q : List (List Rat)) (v : Vec)

/-- `other @ self` (`__rmatmul__`) -/
def vecRmatmul (self : Vec) (isVVar : Bool) (other : Operand) : Except Err VecResult :=
  match other with
  | .arr1 xs | .list1 xs => (mkLinComb xs self).map VecResult.scalar
  | .arr2 q | .list2 q =>
    if isVVar then (mkMVP q self).map fun p => VecResult.mvp p.1 p.2
    else .error .typeError                   -- VectorExpression.__rmatmul__ returns NotImplemented
  | .arr0 _ | .arrN _ _ | .pyNum _ | .npNum _ | .scalar _ | .epow _ _ | .eun _ _ | .mexpr _ =>
    if isVVar then .error .wrongDimensionality else .error .typeError   -- np.asarray(other).ndim == 0
  | _ => .error .outsideModel

/-- `.norm(ord)` / `norm(vector, ord)` -/
def vecNorm (v : Vec) (ord : Int) : Except Err Expr :=
  if ord == 2 then .ok (.l2 v) else if ord == 1 then .ok (.l1 v) else .error .invalidOperation

/-! ### `MatrixVariable` -/

/-- the `Variable` that `MatrixVariable.__init__` creates at position `(i, j)`: its identity is
    `base + i * cols + j` (one id per position; positions that reuse an object do not consume theirs) -/
def freshEntry (name : String) (cols base i j : Nat) : Var :=
  ⟨name ++ "[" ++ toString i ++ "," ++ toString j ++ "]", base + i * cols + j⟩

/-- entry `(i, j)` of the grid built by the two nested loops of `MatrixVariable.__init__`.
    For a symmetric matrix and `j < i` the loop appends `self._variables[j][i]`; row `j` is complete by
    then and its column `i > j` holds the variable created there, so the back-reference is written out. -/
def matEntry (name : String) (sym : Bool) (cols base i j : Nat) : Var :=
  if sym && j < i then freshEntry name cols base j i else freshEntry name cols base i j

/-- `MatrixVariable(name, rows, cols, symmetric=…)`; the matrix object gets the id after all positions -/
def mkMatrix (name : String) (rows cols : Int) (sym : Bool) (base : Nat) : Except Err (MatV × Nat) :=
  if rows ≤ 0 then .error .invalidSize
  else if cols ≤ 0 then .error .invalidSize
  else if sym && rows != cols then .error .squareMatrix
  else
    let r := rows.toNat
    let c := cols.toNat
    let grid := (List.range r).map fun i => (List.range c).map fun j => matEntry name sym c base i j
    .ok (⟨name, base + r * c, grid, sym, false⟩, base + r * c + 1)

/-- `[[g[j][i] for j in range(rows)] for i in range(cols)]` -/
def transposeGrid {α} [Inhabited α] (g : List (List α)) : List (List α) :=
  let cols := (g.head?.map List.length).getD 0
  (List.range cols).map fun i => (List.range g.length).map fun j => (g.getD j []).getD i default

/-- `MatrixVariable.T` -/
def matT (m : MatV) (oid : Nat) : MatV :=
  ⟨m.name ++ ".T", oid, transposeGrid m.rows, m.symmetric, !m.isTranspose⟩

/-- `MatrixVariable._from_variables` -/
def matFromVariables (name : String) (grid : List (List Var)) (oid : Nat) : MatV :=
  ⟨name, oid, grid, false, false⟩

inductive MItem | var (x : Var) | vec (v : VVar) | mat (m : MatV)

/-- "Handle negative indices": an integer key is normalised and range-checked, a slice is left alone -/
def normKey (n : Nat) : Key → Except Err Key
  | .int k =>
    match normIndex n k with
    | .ok i => .ok (.int (i : Int))
    | .error e => .error e
  | k => .ok k

/-- `MatrixVariable.__getitem__`; `tupleOfTwo = false` models a key that is not a 2-tuple -/
def matGetItem (m : MatV) (tupleOfTwo : Bool) (rk ck : Key) (oid : Nat) : Except Err MItem :=
  if !tupleOfTwo then .error .invalidOperation
  else
    -- row first, then column
    match normKey m.nrows rk with
    | .error e => .error e
    | .ok rk =>
    match normKey m.ncols ck with
    | .error e => .error e
    | .ok ck =>
    match rk, ck with
    | .int i, .int j => .ok (.var ((m.rows.getD i.toNat []).getD j.toNat default))
    | .int i, .slice cs =>
      match pyGetSlice (m.rows.getD i.toNat []) cs with
      | .error e => .error e
      | .ok [] => .error .index
      | .ok vs => .ok (.vec ⟨m.name ++ "[" ++ toString i ++ ",:]", oid, vs⟩)
    | .slice rs, .int j =>
      match pyGetSlice m.rows rs with
      | .error e => .error e
      | .ok rows =>
        match rows.map (fun row => row.getD j.toNat default) with
        | [] => .error .index
        | vs => .ok (.vec ⟨m.name ++ "[:," ++ toString j ++ "]", oid, vs⟩)
    | .slice rs, .slice cs =>
      match pyGetSlice m.rows rs with
      | .error e => .error e
      | .ok [] => .error .index
      | .ok rows =>
        match rows.mapM (fun row => pyGetSlice row cs) with
        | .error e => .error e
        | .ok grid =>
          if (grid.head?.map List.length).getD 0 == 0 then .error .index
          else .ok (.mat (matFromVariables
            (m.name ++ "[" ++ toString (orDefault rs.start 0) ++ ":" ++ toString (orDefault rs.stop m.nrows)
              ++ "," ++ toString (orDefault cs.start 0) ++ ":" ++ toString (orDefault cs.stop m.ncols) ++ "]")
            grid oid))
    | _, _ => .error .invalidOperation

/-- `rows_iter()` / `__iter__`: `self[i, :]` for each row; view oids `base, base+1, …` -/
def matRowsIter (m : MatV) (base : Nat) : List VVar :=
  (List.range m.nrows).map fun i => ⟨m.name ++ "[" ++ toString i ++ ",:]", base + i, m.rows.getD i []⟩

/-- `cols_iter()`: `self[:, j]` -/
def matColsIter (m : MatV) (base : Nat) : List VVar :=
  (List.range m.ncols).map fun j =>
    ⟨m.name ++ "[:," ++ toString j ++ "]", base + j, m.rows.map fun row => row.getD j default⟩

def diagVars (g : List (List Var)) : List Var :=
  (List.range g.length).map fun i => (g.getD i []).getD i default

/-- `MatrixVariable.diagonal()` and the module function `diag(matrix)` -/
def matDiagonal (m : MatV) (oid : Nat) : Except Err VVar :=
  if m.nrows != m.ncols then .error .squareMatrix
  else .ok ⟨"diag(" ++ m.name ++ ")", oid, diagVars m.rows⟩

/-- `diag(x)` dispatch on the argument kind -/
def diagFn (x : Operand) (oid : Nat) : Except Err VVar :=
  match x with
  | .mvar m => matDiagonal m oid
  | .vvar _ => .error .invalidOperation
  | _ => .error .outsideModel      -- ndarray → np.diag (plain NumPy)

/-- `MatrixVariable.trace()` / `trace(matrix)`: left-nested sum of the diagonal -/
def matTrace (m : MatV) : Except Err Expr :=
  if m.nrows != m.ncols then .error .squareMatrix
  else match diagVars m.rows with
    | [] => .error .index
    | d :: ds => .ok (ds.foldl (fun acc v => Expr.bin .add acc (.var v)) (.var d))

/-- `MatrixVariable.get_variables()` (upper triangle for a symmetric matrix) -/
def matGetVariables (m : MatV) : List Var :=
  if m.symmetric then
    (List.range m.nrows).flatMap fun i =>
      ((List.range m.ncols).filter (fun j => i ≤ j)).map fun j => (m.rows.getD i []).getD j default
  else m.rows.flatten

/-- a matrix-like left operand -/
inductive MatLike | mvar (m : MatV) | mexpr (rows : List (List Expr))

def MatLike.elems : MatLike → List (List Expr)
  | .mvar m => m.rows.map fun row => row.map Expr.var
  | .mexpr rows => rows

def gridShape {α} (g : List (List α)) : Nat × Nat := (g.length, (g.head?.map List.length).getD 0)

/-- `MatrixExpression(expressions)` -/
def mkMExpr (g : List (List Expr)) : Except Err (List (List Expr)) :=
  if g.isEmpty || (g.head?.map List.isEmpty).getD true then .error .emptyContainer else .ok g

def zipGrid (op : BinOp) (l r : List (List Expr)) : List (List Expr) :=
  List.zipWith (fun lr rr => List.zipWith (fun a b => Expr.bin op a b) lr rr) l r

/-- right operand of `_matrix_binary_op` as a grid of the left operand's shape -/
def mbinRight (shape : Nat × Nat) : Operand → Except Err (List (List Expr))
  | .pyNum q => .ok (List.replicate shape.1 (List.replicate shape.2 (cst q)))
  | .mvar w =>
    if (w.nrows, w.ncols) != shape then .error .dimensionMismatch
    else .ok (w.rows.map fun row => row.map Expr.var)
  | .mexpr g => if gridShape g != shape then .error .dimensionMismatch else .ok g
  | .arr2 g | .list2 g =>
    if gridShape g != shape then .error .dimensionMismatch else .ok (g.map fun row => row.map cst)
  | .arr0 _ | .arr1 _ | .list1 _ | .arrN _ _ => .error .dimensionMismatch   -- `right.shape != (rows, cols)`
  | .npNum _ | .scalar _ | .vvar _ | .vexpr _ | .mvp _ _ | .epow _ _ | .eun _ _ => .error .invalidOperation

/-- `_matrix_binary_op(left, right, op)` -/
def matrixBinaryOp (left : MatLike) (right : Operand) (op : BinOp) : Except Err (List (List Expr)) :=
  let ls := left.elems
  match mbinRight (gridShape ls) right with
  | .error e => .error e
  | .ok rs => mkMExpr (zipGrid op ls rs)

/-- `__rsub__` of `MatrixVariable` / `MatrixExpression` (`other - self`) -/
def matrixRsub (self : MatLike) (other : Operand) : Except Err (List (List Expr)) :=
  let es := self.elems
  match other with
  | .pyNum q => mkMExpr (es.map fun row => row.map fun e => Expr.bin .sub (cst q) e)
  | .arr2 g =>
    if gridShape g != gridShape es then .error .dimensionMismatch
    else mkMExpr (zipGrid .sub (g.map fun row => row.map cst) es)
  | .arr0 _ | .arr1 _ | .arrN _ _ => .error .dimensionMismatch
  | _ => .error .invalidOperation

/-- `__rtruediv__` (`other / self`) -/
def matrixRdiv (self : MatLike) (other : Operand) : Except Err (List (List Expr)) :=
  let es := self.elems
  match other with
  | .arr2 g | .list2 g =>            -- lists / tuples are `np.asarray`-ed first
    if gridShape g != gridShape es then .error .dimensionMismatch
    else mkMExpr (zipGrid .div (g.map fun row => row.map cst) es)
  | .arr1 _ | .list1 _ | .arrN _ _ => .error .dimensionMismatch
  | .pyNum q | .npNum q | .arr0 q => mkMExpr (es.map fun row => row.map fun e => Expr.bin .div (cst q) e)
  | _ => .error .outsideModel      -- `Constant(<optyx object>)` per element

def matrixNeg (self : MatLike) : Except Err (List (List Expr)) :=
  mkMExpr (self.elems.map fun row => row.map fun e => Expr.un .neg e)

/-- `.sum()` of a matrix -/
def matrixSum : MatLike → Expr
  | .mvar m => .matSumV m.toMVar
  | .mexpr g => .matSumE (ExprList.ofList g.flatten)

/-- `MatrixExpression.T` -/
def mexprT (g : List (List Expr)) : Except Err (List (List Expr)) := mkMExpr (transposeGrid g)

/-- `MatrixExpression.__getitem__((i, j))` -/
def mexprGetItem (g : List (List Expr)) (i j : Int) : Except Err Expr :=
  match normIndex g.length i with
  | .error e => .error e
  | .ok i' => match normIndex (gridShape g).2 j with
    | .error e => .error e
    | .ok j' => .ok ((g.getD i' []).getD j' default)

/-- `MatrixVariable._matmul_vector`: `row_expr = Constant(0.0); row_expr = row_expr + A[i][j] * x[j]` -/
def matmulVector (m : MatV) (v : Vec) : Except Err (List Expr) :=
  let xs := Vec.elems' v
  if m.ncols != xs.length then .error .dimensionMismatch
  else mkVExpr (m.rows.map fun row =>
    (List.zipWith (fun (a : Var) x => Expr.bin .mul (.var a) x) row xs).foldl
      (fun acc t => Expr.bin .add acc t) (cst 0))

/-- `MatrixVariable.__matmul__` -/
def matMatmul (m : MatV) (other : Operand) : Except Err (List Expr) :=
  match other.toVec? with
  | some v => matmulVector m v
  | none => .error .invalidOperation

/-- `MatrixVariable.__rmatmul__`: always raises -/
def matRmatmul (_m : MatV) (_other : Operand) : Except Err (List Expr) := .error .invalidOperation

/-- a `Variable` created with explicit bounds -/
structure NewVar where
  v : Var
  lb : Option Rat
  ub : Option Rat

/-- entry `(i, j)` of `diag_matrix(vector)`: the vector's own element on the diagonal, a fresh
    `Variable("_diag_{name}[i,j]", lb=0.0, ub=0.0)` (identity `base + i * n + j`) elsewhere -/
def diagEntry (v : VVar) (base i j : Nat) : Var :=
  if i == j then v.vars.getD i default
  else ⟨"_diag_" ++ v.name ++ "[" ++ toString i ++ "," ++ toString j ++ "]", base + i * v.vars.length + j⟩

/-- `diag_matrix(vector)`: the matrix, the variables it creates (row-major, each with bounds (0, 0)),
    and the next free object id -/
def diagMatrix (v : VVar) (base : Nat) : MatV × List NewVar × Nat :=
  let n := v.vars.length
  let grid := (List.range n).map fun i => (List.range n).map fun j => diagEntry v base i j
  let news := (List.range n).flatMap fun i =>
    ((List.range n).filter (fun j => i != j)).map fun j => (⟨diagEntry v base i j, some 0, some 0⟩ : NewVar)
  (matFromVariables ("diag(" ++ v.name ++ ")") grid (base + n * n), news, base + n * n + 1)

/-- `FrobeniusNorm(matrix)` -/
def frobenius (m : MatV) : Expr := .frob m.toMVar

/-- `optyx.abs_(x)` &c. (`functions.py`): `ElementwiseUnary` for a `VectorVariable`, element-wise
    `UnaryOp` for a `VectorExpression`, `UnaryOp(_ensure_expr(x))` otherwise -/
def applyFn (op : VOp) : Operand → Except Err Operand
  | .vvar v => .ok (.eun v op)
  | .vexpr es => (mkVExpr (es.map fun e => Expr.un op.toUn e)).map Operand.vexpr
  | .mvp q v => (mkVExpr ((mvpElems q v).map fun e => Expr.un op.toUn e)).map Operand.vexpr
  | .scalar e => .ok (.scalar (.un op.toUn e))
  | .pyNum q | .npNum q | .arr0 q => .ok (.scalar (.un op.toUn (cst q)))
  | _ => .error .outsideModel

/-! ### operator dispatch: which method CPython / NumPy run for `l op r` and `l @ r` -/

def Operand.isVecObj : Operand → Bool
  | .vvar _ | .vexpr _ | .mvp _ _ => true
  | _ => false

def Operand.isMatObj : Operand → Bool
  | .mvar _ | .mexpr _ => true
  | _ => false

def Operand.toVecLike? : Operand → Option VecLike
  | .vvar v => some (.vvar v)
  | .vexpr es => some (.vexpr es)
  | .mvp q v => some (.vexpr (mvpElems q v))
  | _ => none

def Operand.toMatLike? : Operand → Option MatLike
  | .mvar m => some (.mvar m)
  | .mexpr g => some (.mexpr g)
  | _ => none

/-- `l op r` for `op ∈ {+, -, *, /, **}` -/
def arith (op : BinOp) (l r : Operand) : Except Err Operand :=
  match l.toVecLike?, l.toMatLike? with
  | some lv, _ =>
    match l, op with
    | .vvar v, .pow => (vvarPow v r).map fun p => Operand.epow p.1 p.2
    | _, _ => (vectorBinaryOp lv r op).map Operand.vexpr
  | _, some lm => (matrixBinaryOp lm r op).map Operand.mexpr
  | none, none =>
    match l with
    | .scalar e =>
      -- `Expression.__op__`: `BinaryOp(self, _ensure_expr(other), op)`
      match r with
      | .pyNum q | .npNum q | .arr0 q => .ok (.scalar (.bin op e (cst q)))
      | .scalar e2 => .ok (.scalar (.bin op e e2))
      | _ => .error .outsideModel      -- `Constant(np.asarray(<container>))` / array-valued node (findings F23, F11 family)
    | .epow _ _ | .eun _ _ => .error .outsideModel
    | _ =>
      -- Python number / NumPy scalar / ndarray / list on the left: the right operand's reflected method
      match r.toVecLike?, r.toMatLike? with
      | some rv, _ =>
        match op with
        | .add | .mul => (vectorBinaryOp rv l op).map Operand.vexpr
        | .sub | .div => (vectorReflectedOp rv l op).map Operand.vexpr
        | .pow => .error .typeError
      | _, some rm =>
        match op with
        | .add | .mul => (matrixBinaryOp rm l op).map Operand.mexpr
        | .sub => (matrixRsub rm l).map Operand.mexpr
        | .div => (matrixRdiv rm l).map Operand.mexpr
        | .pow => .error .typeError
      | none, none =>
        match r, l with
        | .scalar e, .pyNum q | .scalar e, .npNum q | .scalar e, .arr0 q =>
          .ok (.scalar (.bin op (cst q) e))      -- `Expression.__rop__`
        | _, _ => .error .outsideModel

inductive MatmulResult | scalar (e : Expr) | vexpr (es : List Expr) | mvp (q : List (List Rat)) (v : Vec)

/-- `l @ r` -/
def matmul (l r : Operand) : Except Err MatmulResult :=
  match l with
  | .vvar v => (vecMatmul (.vars v) true r).map MatmulResult.scalar
  | .vexpr es => (vecMatmul (vecOf es) false r).map MatmulResult.scalar
  | .mvp q v => (vecMatmul (vecOf (mvpElems q v)) false r).map MatmulResult.scalar
  | .mvar m => (matMatmul m r).map MatmulResult.vexpr
  | _ =>
    -- `l` has no `__matmul__` for `r` (or defers to `__array_ufunc__ = None`): `r.__rmatmul__(l)`
    let conv : VecResult → MatmulResult
      | .scalar e => .scalar e
      | .mvp q v => .mvp q v
    match r with
    | .vvar v => (vecRmatmul (.vars v) true l).map conv
    | .vexpr es => (vecRmatmul (vecOf es) false l).map conv
    | .mvp q v => (vecRmatmul (vecOf (mvpElems q v)) false l).map conv
    | .mvar m => (matRmatmul m l).map MatmulResult.vexpr
    | .mexpr _ => .error .typeError
    | _ =>
      -- neither operand is a vector / matrix variable class: NumPy's own matmul if an ndarray
      -- meets a scalar `Expression` (0-d object operand → ValueError), `TypeError` otherwise
      let isArr (o : Operand) : Bool := match o with
        | .arr0 _ | .arr1 _ | .arr2 _ | .arrN _ _ => true | _ => false
      let isExprNode (o : Operand) : Bool := match o with
        | .scalar _ | .epow _ _ | .eun _ _ => true | _ => false
      if (isArr l && isExprNode r) || (isExprNode l && isArr r) then .error .valueError
      else if isArr l && isArr r then .error .outsideModel     -- plain NumPy
      else .error .typeError

end Optyx.Py.Api
