/-
  Optyx.Py.Eval — executable model of `Expression.evaluate(values)` (tree evaluation), one
  case per class of core/expressions.py, core/vectors.py, core/matrices.py, core/parameters.py.

  * `values : String → Option α` is the Python `values` mapping (name → number); a name that
    is not a key makes `Variable.evaluate` raise `MissingValueError(variable_name=…)`
    = `.error (.missing name)`.  Evaluation order is the Python one (left operand first, vector
    elements left to right), so the *first* missing name is the one reported.
  * `σ : Nat → α` is the parameter store read at call time: `Parameter.evaluate` returns
    `self._value` and ignores `values`.
  * Python's builtin `sum(iterable)` and the `total = 0.0; total += …` loops are the left fold
    `pySum` from zero — they are *not* identified with `NumAlg.sum` (the right fold that stands
    for NumPy's `np.sum` / `np.dot`, whose internal association is outside the model,
    DESIGN §4.5).  Theorems that equate the two need the additive-monoid laws (`AddLaws`).
  * `x @ Q @ x`, `np.dot`, `np.sum`, `np.linalg.norm` are NumPy primitives: `quadForm`, `wsum`/`dotp`,
    `sum`, `sqrt (dotp v v)` ("the usual sums", trusted base §4.5).
  * NumPy raises `ValueError` when the operand lengths of `np.dot` / `@` differ.  The constructors
    (`LinearCombination`, `DotProduct`, `QuadraticForm`) reject such operands with
    `DimensionMismatchError`, so these states are unreachable through the API; the model
    answers `.error .shape` there (and does not claim to mirror NumPy's exact behaviour on them:
    e.g. `DotProduct.evaluate` would silently truncate a longer right operand).
  * `MatrixVariable._variables` is assumed rectangular with `rows × cols` entries (established
    by every constructor, never mutated): the `for i … for j …` loops visit `m.flat`.
  Not modelled: array-valued `Constant`s, `ElementwisePower` / `ElementwiseUnary` (array-valued
  nodes, no constructor in `Expr`), NumPy's integer-power rule for all-`int` operands (F20).
-/
import Optyx.Denote

namespace Optyx.Py
open Optyx NumAlg

/-- the exceptions of the evaluation / compilation units (one enum for Eval, Compile, run) -/
inductive CErr
  | missing (name : String)   -- MissingValueError(variable_name) from Variable.evaluate
  | keyError (name : String)  -- KeyError: `var_indices[name]` / `values[name]` for an unknown name
  | keyId (i : Nat)           -- KeyError: `results[id(child)]` in _gradient_iterative (unreachable)
  | index (i : Nat)           -- IndexError: `x[i]` past the end of the point array
  | shape                     -- operand lengths differ (unreachable through the constructors)
  | popEmpty                  -- IndexError: pop from empty result stack (unreachable)
  | emptyResult               -- InvalidExpressionError "result stack was empty" (unreachable)
  | fuel                      -- model artefact: the `while stack:` loop was cut off
  deriving DecidableEq, Repr, Inhabited

variable {α : Type} [NumAlg α]

/-- Python's builtin `sum(it)` / an accumulator loop `t = 0; for a in it: t += a`. -/
def pySum (l : List α) : α := l.foldl add zero

/-- `np.dot(c, vals)` for a rational coefficient vector. -/
def npDotC (cs : List Rat) (xs : List α) : Except CErr α :=
  if cs.length = xs.length then .ok (wsum cs xs) else .error .shape

/-- `np.dot(u, v)`. -/
def npDot (xs ys : List α) : Except CErr α :=
  if xs.length = ys.length then .ok (dotp xs ys) else .error .shape

/-- `x @ Q @ x`. -/
def npQuad (q : List (List Rat)) (xs : List α) : Except CErr α :=
  if q.length = xs.length ∧ q.all (fun row => row.length == xs.length) then .ok (quadForm q xs)
  else .error .shape

/-- `Variable.evaluate` -/
def lookupVal (values : String → Option α) (v : Var) : Except CErr α :=
  match values v.name with
  | some a => .ok a
  | none => .error (.missing v.name)

/-- `[v.evaluate(values) for v in vars]` -/
def evalVars (values : String → Option α) : List Var → Except CErr (List α)
  | [] => .ok []
  | v :: t => do
    let a ← lookupVal values v
    let r ← evalVars values t
    pure (a :: r)

mutual
/-- `expr.evaluate(values)` -/
def evaluate (values : String → Option α) (σ : Nat → α) : Expr → Except CErr α
  | .const c => .ok (cst c)
  | .var v => lookupVal values v
  | .param p => .ok (σ p.oid)
  | .bin op l r => do
    let a ← evaluate values σ l
    let b ← evaluate values σ r
    pure (binop op a b)                                   -- _OPS[op](left_val, right_val)
  | .un op a => do
    let x ← evaluate values σ a
    pure (unop op x)                                      -- _numpy_func(operand_val)
  | .linComb cs v => do
    let xs ← evaluateVec values σ v
    npDotC cs xs                                          -- float(np.dot(coefficients, vals))
  | .vecSum v => do
    let xs ← evalVars values v.vars
    pure (sum xs)                                         -- float(np.sum(np.fromiter(...)))
  | .exprSum es => do
    let xs ← evaluateList values σ es
    pure (pySum xs)                                       -- sum(e.evaluate(values) for e in ...)
  | .dot l r => do
    let xs ← evaluateVec values σ l
    let ys ← evaluateVec values σ r
    npDot xs ys                                           -- float(np.dot(left_vals, right_vals))
  | .l2 v => do
    let xs ← evaluateVec values σ v
    pure (unop .sqrt (pySum (xs.map fun a => mul a a)))   -- np.sqrt(sum(v * v for v in vals))
  | .l1 v => do
    let xs ← evaluateVec values σ v
    pure (pySum (xs.map (unop .abs)))                     -- sum(abs(v) for v in vals)
  | .quad v q => do
    let xs ← evaluateVec values σ v
    npQuad q xs                                           -- float(x @ Q @ x)
  | .powSum v k => do
    let xs ← evalVars values v.vars
    pure (sum (xs.map fun a => NumAlg.pow a (ofRat k)))   -- float(np.sum(vals ** power))
  | .unSum v op => do
    let xs ← evalVars values v.vars
    pure (sum (xs.map (unop op.toUn)))                    -- float(np.sum(f(vals)))
  | .matSumV m => do
    let xs ← evalVars values m.flat
    pure (pySum xs)                                       -- total = 0.0; total += float(...)
  | .matSumE es => do
    let xs ← evaluateList values σ es
    pure (sum xs)                                         -- float(np.sum(matrix.evaluate(values)))
  | .frob m => do
    let xs ← evalVars values m.flat
    pure (unop .sqrt (pySum (xs.map fun a => mul a a)))   -- sum_sq += val * val; np.sqrt(sum_sq)
/-- element values of a vector operand (`_iter_vector()` / `_iter_left()` …) -/
def evaluateVec (values : String → Option α) (σ : Nat → α) : Vec → Except CErr (List α)
  | .vars v => evalVars values v.vars
  | .exprs es => evaluateList values σ es
def evaluateList (values : String → Option α) (σ : Nat → α) : ExprList → Except CErr (List α)
  | .nil => .ok []
  | .cons e t => do
    let a ← evaluate values σ e
    let r ← evaluateList values σ t
    pure (a :: r)
end

/-- API well-formedness of the sizes: what the constructors `LinearCombination`, `DotProduct`,
    `QuadraticForm` check (`DimensionMismatchError` / `SquareMatrixError` otherwise). -/
def vecLen : Vec → Nat
  | .vars v => v.vars.length
  | .exprs es => es.length

mutual
def wfE : Expr → Bool
  | .const _ | .var _ | .param _ | .vecSum _ | .powSum _ _ | .unSum _ _ | .matSumV _ | .frob _ => true
  | .bin _ l r => wfE l && wfE r
  | .un _ a => wfE a
  | .linComb cs v => (cs.length == vecLen v) && wfV v
  | .exprSum es | .matSumE es => wfL es
  | .dot l r => (vecLen l == vecLen r) && wfV l && wfV r
  | .l2 v | .l1 v => wfV v
  | .quad v q => (q.length == vecLen v) && q.all (fun row => row.length == vecLen v) && wfV v
def wfV : Vec → Bool
  | .vars _ => true
  | .exprs es => wfL es
def wfL : ExprList → Bool
  | .nil => true
  | .cons e t => wfE e && wfL t
end

end Optyx.Py
